"""Pure metadata of the C19 operation registry (importable by the coordinator, which must not import gambatools).

An operation is *semantic* when its outcome digest is a function of the LANGUAGES of its operands only.  Across
replicas an operand that is itself a result of an earlier step may legitimately differ in structure (e.g. the regular
expression extracted under another elimination order, the variable names chosen by the Chomsky conversion) while having
the same language; the property speaks about *equal arguments*, so for structurally different operands only semantic
operations are compared.  For equal operand snapshots every operation is compared."""

SEMANTIC_PREFIXES = ('generate_language_', 'check_equal_languages_', 'check_accepts_rejects_')
SEMANTIC_OPS = {
    'dfa_accepts_word', 'dfa_words_up_to_n', 'dfa_minimize', 'dfa_quotient', 'dfa_hopfcroft', 'dfa_complement', 'dfa_union',
    'dfa_intersection', 'dfa_symmetric_difference', 'dfa_reverse', 'dfa_no_prefix', 'dfa_no_extend', 'dfa_remove_unreachable_states',
    'dfa_to_regexp', 'nfa_accepts_word', 'nfa_words_up_to_n', 'nfa_to_dfa', 'nfa_union', 'nfa_concatenation', 'nfa_repetition',
    'pda_accepts_word', 'pda_words_up_to_n', 'pda_to_push_pop', 'pda_to_accept_on_empty_stack', 'pda_to_cfg',
    'tm_accepts_word', 'tm_words_up_to_n', 'cfg_accepts_word', 'cfg_words_up_to_n', 'cfg_to_chomsky', 'cfg_add_new_start_variable',
    'cfg_remove_epsilon_rules', 'cfg_eliminate_unit_rules', 'cfg_make_rules_of_length_two', 'cfg_eliminate_terminals',
    'cfg_remove_useless_rules', 'cfg_apply_chomsky', 'regexp_accepts_word', 'regexp_words_up_to_n', 'regexp_simplify', 'regexp_to_nfa',
    'reparse_dfa', 'reparse_nfa', 'reparse_pda', 'reparse_cfg', 'language_helpers', 'generate_language_words', 'language_reverse_words', 'concatenation_words', 'parse_printed_nfa', 'parse_printed_pda',
    'words_up_to_n_sigma', 'compare_languages_words', 'language_set_operations',
}
# witness-returning operations are never compared (C15 allows any valid witness).  The regexp printers are NOT semantic:
# the concrete syntax is ambiguous for alphabets containing 0, 1 or multi-character symbols, so the re-parsed language is
# a function of the tree, not of the operand's language (they are compared for equal operand snapshots only)


def is_semantic(name):
    return name in SEMANTIC_OPS or name.startswith(SEMANTIC_PREFIXES)


def coarse(d):
    """Digest with structure-dependent payload removed (used when operands differ structurally)."""
    if isinstance(d, str) and d.split(':')[0] in ('invalid', 'unparsable', 'digest-failed', 'nontext'):
        return d.split(':')[0]
    return d


def outcomes_differ(name, da, db, siga, sigb):
    """The comparison rule shared by replica comparison, minimisation and replay."""
    if any(isinstance(d, str) and (d.startswith('skip:') or d == 'big' or d.endswith(':big') or d == 'timeout') for d in (da, db)):
        # a skip / 'big' is a decision of the harness (operand too large / never created / result too large to digest / tick budget of the harness exceeded), taken on structure or on tick counts that may
        # legitimately differ between replicas; the step that failed to create the operand is compared on its own
        return False
    if siga == sigb:
        return da != db
    if is_semantic(name):
        return coarse(da) != coarse(db)
    return False
