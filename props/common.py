"""Helpers shared by the property modules (executed inside the forked child)."""
import sys
import io
import json

from sim import rng as simrng

TICK_BUDGET = 2_000_000
TIGHT_LOOP = 40_000


def call(env, fn, *args, budget=TICK_BUDGET, tight=TIGHT_LOOP, **kw):
    """Call a library function under the tick clock.  Returns ('ok', value, ticks) | ('exc', 'Type: msg', ticks) |
    ('timeout', msg, ticks).  stdout is already a sink."""
    clock = env.clock
    clock.start(budget, tight)
    try:
        v = fn(*args, **kw)
        t = clock.stop()
        if budget:
            env.budget_used_permille = max(getattr(env, 'budget_used_permille', 0), int(1000 * t / budget))
        return 'ok', v, t
    except env.SimTimeout as e:
        return 'timeout', str(e), clock.stop()
    except RecursionError as e:
        return 'exc', 'RecursionError', clock.stop()
    except Exception as e:
        return 'exc', '%s: %s' % (type(e).__name__, str(e)[:200]), clock.stop()


def viol(cls, site, detail, tags=()):
    return {'cls': cls, 'site': site, 'detail': detail, 'tags': list(tags)}


def set_knobs(logging=None, limit=None):
    from gambatools.global_settings import GambaTools
    if logging is not None:
        GambaTools.enable_logging = bool(logging)
    if limit is not None:
        GambaTools.pda_epsilon_closure_max_iterations = limit


def hx(obj):
    return simrng.hexdigest(obj)


def drop_one(xs):
    """All lists obtained by removing one element."""
    for i in range(len(xs)):
        yield xs[:i] + xs[i + 1:]
