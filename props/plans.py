"""Per-property run plans and evidence texts.  Imported by the coordinator, which must not import gambatools."""

COMMON_ASSUMPTIONS = [
    'sampling, not proof: a clean run is evidence only for the schedules, histories, knob settings and inputs explored',
    'reference models in /verif/ref are correct (each is cross-checked against a second formulation by ./check selftest)',
    'every explored set order is one CPython 3.12 really produces for some (PYTHONHASHSEED, element names, insertion order); '
    'orders CPython cannot produce are not explored',
    'the tick clock (sys.monitoring PY_START + backward JUMP in gambatools code) is a faithful deterministic proxy for "finite time"',
]

PLANS = {
    'C04': {
        'quick': {'rounds': 32, 'wall_cap_s': 150},
        'thorough': {'rounds': 96, 'wall_cap_s': 1500},
        'rule': ('cases = seeded random complete DFAs (1-7 core states + 0-3 unreachable, |Sigma| 0-3, accepting ratio drawn from '
                 '{0,.1,.5,.9,1}), DFAs with deliberately split (equivalent) states, and a fixed corner corpus; each renamed '
                 'injectively and list-shuffled (insertion order) per case, run under the round\'s PYTHONHASHSEED in a pristine fork; '
                 'all three minimisers per case (evaluations counts minimiser calls). distinct = distinct abstract (pre-renaming) DFA; '
                 'non-trivial = >=2 Nerode classes and at least one mergeable pair of states.'),
        'schedule_measure': 'distinct (abstract DFA, iteration order of its Q/Sigma/F sets in the executing process) pairs',
        'assumptions': COMMON_ASSUMPTIONS,
        'expected_probes': ['has_unreachable', 'F_empty', 'F_full', 'one_state', 'sigma_empty', 'logging_on', 'nontrivial'],
        'technique': 'deterministic simulation: seeded search over set-iteration schedules (PYTHONHASHSEED x renaming x insertion order) and the logging knob; reference-model oracle; minimised replay files',
        'level_text': 'seeded sampling of DFAs x schedules; every result of the three minimisers is checked against an independent reference (validity, exact language equality, Moore refinement leaves every state alone, Nerode class-count bounds, argument snapshot); evidence, not proof',
        'design_ref': 'DESIGN.md 5.2',
        'level_note': 'trusted: /verif/ref/fa.py (cross-checked by selftest); CPython set ordering is the only scheduler; tick clock as hang guard (a call exceeding 2M ticks counts as not returning)',
    },
    'C20': {
        'quick': {'rounds': 32, 'wall_cap_s': 150},
        'thorough': {'rounds': 96, 'wall_cap_s': 1500},
        'rule': ('cases = pairs of complete DFAs over a common alphabet (1-6 states each): renamed copies (with/without extra unreachable '
                 'states), one side minimised, one state split, independent DFAs, single-transition and single-accepting-bit mutations, the '
                 'same object twice; both functions x both argument orders per case (evaluations counts calls), each under a 300k-tick budget; '
                 'states renamed per case, run under the round\'s PYTHONHASHSEED in a pristine fork. distinct = distinct abstract pair; '
                 'non-trivial = both reachable parts have >= 2 states.'),
        'schedule_measure': 'distinct (abstract pair, iteration order of both DFAs\' Q/Sigma/F sets) pairs; pair exploration order is set_element(todo)',
        'assumptions': COMMON_ASSUMPTIONS + ['a call that does not return within 300000 ticks (correct code needs < 3000 on these sizes) is counted as non-terminating'],
        'expected_probes': ['pair_isomorphic', 'pair_equivalent_not_isomorphic', 'pair_inequivalent',
                            'same_language_different_reachable_count', 'has_unreachable', 'identical_objects', 'nontrivial'],
        'technique': 'deterministic simulation: seeded search over pair-exploration schedules (PYTHONHASHSEED x renaming) under a simulated tick clock (bounded liveness); canonical-form oracle; minimised replay files',
        'level_text': 'seeded sampling of DFA pairs of five classes x schedules; both functions and both argument orders must answer exactly canon(D1)==canon(D2) and must return within the tick budget; evidence, not proof',
        'design_ref': 'DESIGN.md 5.9',
        'level_note': 'trusted: /verif/ref/iso.py (BFS canonical form, cross-checked against brute-force bijection search); termination is judged by a deterministic tick budget, never by wall clock',
    },
    'C15': {
        'quick': {'rounds': 32, 'wall_cap_s': 150},
        'thorough': {'rounds': 96, 'wall_cap_s': 1500},
        'rule': ('cases = (object, word list): DFAs (1-5 states), NFAs (1-6 states, epsilon density up to .6, epsilon self-loops/cycles, '
                 'dict and defaultdict transition maps), PDAs (1-4 states, all four transition shapes, closure limit knob in {20,60,200,1000}) '
                 'and CNF grammars (1-5 variables); words = accepted words up to length 4-5 chosen with the reference (shortest + longest) plus '
                 'rejected words for NFA/PDA; both leftmost and rightmost for grammars; one evaluation = one library call under the tick budget. '
                 'distinct = distinct abstract object; non-trivial = some valid run of length >= 3 with an epsilon step (automata) / derivation of length >= 3.'),
        'schedule_measure': 'distinct (abstract object, iteration order of its Q/Sigma/Gamma/F/V sets) pairs',
        'assumptions': COMMON_ASSUMPTIONS + ['a call that does not return within 400k (PDA: 1.2M) ticks is counted as not returning in finite time',
                                             'PDA narrowing: a witness is demanded only when the library\'s own pda_accepts_word says True under the current limit'],
        'expected_probes': ['kind_dfa', 'kind_nfa', 'kind_pda', 'kind_cfg', 'epsilon_cycle_present', 'run_with_epsilon_steps', 'nontrivial'],
        'technique': 'deterministic simulation: seeded search over set-iteration schedules (PYTHONHASHSEED x renaming x insertion order) under a simulated tick clock (bounded liveness); independent witness re-checker; minimised replay files',
        'level_text': 'seeded sampling of automata/grammars x words x schedules; every returned run/derivation is re-checked step by step against the snapshot by an independent checker, acceptance comes from the reference, and every call must return within the tick budget; evidence, not proof',
        'design_ref': 'DESIGN.md 5.6',
        'level_note': 'trusted: witness checkers in props/c15.py and ref/cfg.py, reference acceptance (ref/fa.py, ref/pda.py); termination judged by deterministic tick budget',
    },
}
