"""Per-property run plans and evidence texts.  Imported by the coordinator, which must not import gambatools."""

COMMON_ASSUMPTIONS = [
    'sampling, not proof: a clean run is evidence only for the schedules, histories, knob settings and inputs explored',
    'reference models in /verif/ref are correct (each is cross-checked against a second formulation by ./check selftest)',
    'every explored set order is one CPython 3.12 really produces for some (PYTHONHASHSEED, element names, insertion order); '
    'orders CPython cannot produce are not explored',
    'the tick clock (sys.monitoring PY_START + backward JUMP in gambatools code) is a faithful deterministic proxy for "finite time"',
]

PLANS = {
    'C04': {
        'quick': {'rounds': 32, 'wall_cap_s': 150},
        'thorough': {'rounds': 288, 'wall_cap_s': 2400},
        'rule': ('cases = seeded random complete DFAs (1-7 core states + 0-3 unreachable, |Sigma| 0-3, accepting ratio drawn from '
                 '{0,.1,.5,.9,1}), DFAs with deliberately split (equivalent) states, and a fixed corner corpus; each renamed '
                 'injectively and list-shuffled (insertion order) per case, run under the round\'s PYTHONHASHSEED in a pristine fork; '
                 'all three minimisers per case (evaluations counts minimiser calls); in 30% of the cases the live DFA object is then edited in place (a transition redirected, an accepting bit flipped, a state added) and minimised again in the same interpreter; state names include names that look like the library\'s own set/pair names ({q1,q2}, (a,b)). distinct = distinct abstract (pre-renaming) DFA; '
                 'non-trivial = >=2 Nerode classes and at least one mergeable pair of states.'),
        'schedule_measure': 'distinct (abstract DFA, iteration order of its Q/Sigma/F sets in the executing process) pairs',
        'assumptions': COMMON_ASSUMPTIONS,
        'expected_probes': ['has_unreachable', 'F_empty', 'F_full', 'one_state', 'sigma_empty', 'logging_on', 'nontrivial', 'inplace_edit_between_calls', 'earlier_calls_on_a_twin', 'at_least_12_classes'],
        'technique': 'deterministic simulation: seeded search over set-iteration schedules (PYTHONHASHSEED x renaming x insertion order) and the logging knob; reference-model oracle; minimised replay files; also object-lifetime histories inside each pristine interpreter (in-place edits of the live object between calls, earlier calls on twin objects) and the logging knob',
        'level_text': 'seeded sampling of DFAs x schedules; every result of the three minimisers is checked against an independent reference (validity, exact language equality, Moore refinement leaves every state alone, Nerode class-count bounds, argument snapshot); evidence, not proof',
        'design_ref': 'DESIGN.md 5.2',
        'level_note': 'trusted: /verif/ref/fa.py (cross-checked by selftest); CPython set ordering is the only scheduler; tick clock as hang guard (a call exceeding 2M ticks counts as not returning)',
    },
    'C20': {
        'quick': {'rounds': 32, 'wall_cap_s': 150},
        'thorough': {'rounds': 384, 'wall_cap_s': 2400},
        'rule': ('cases = pairs of complete DFAs over a common alphabet (1-6 states each): renamed copies (with/without extra unreachable '
                 'states), one side minimised, one state split, independent DFAs, single-transition and single-accepting-bit mutations, the '
                 'same object twice; both functions x both argument orders per case (evaluations counts calls), each under a 300k-tick budget; '
                 'states renamed per case, run under the round\'s PYTHONHASHSEED in a pristine fork; in half of the cases one of the two live objects is then edited in place and all four calls are repeated (object-lifetime history). distinct = distinct abstract pair; '
                 'non-trivial = both reachable parts have >= 2 states.'),
        'schedule_measure': 'distinct (abstract pair, iteration order of both DFAs\' Q/Sigma/F sets) pairs; pair exploration order is set_element(todo)',
        'assumptions': COMMON_ASSUMPTIONS + ['a call that does not return within 300000 ticks (correct code needs < 3000 on these sizes) is counted as non-terminating'],
        'expected_probes': ['pair_isomorphic', 'pair_equivalent_not_isomorphic', 'pair_inequivalent',
                            'same_language_different_reachable_count', 'has_unreachable', 'identical_objects', 'nontrivial', 'inplace_edit_between_calls', 'earlier_calls_on_a_twin'],
        'technique': 'deterministic simulation: seeded search over pair-exploration schedules (PYTHONHASHSEED x renaming) under a simulated tick clock (bounded liveness); canonical-form oracle; minimised replay files; also object-lifetime histories inside each pristine interpreter (in-place edits of the live object between calls, earlier calls on twin objects) and the logging knob; second operand also derived from the live first one (same object, dfa_complement, shared transition map)',
        'level_text': 'seeded sampling of DFA pairs of five classes x schedules; both functions and both argument orders must answer exactly canon(D1)==canon(D2) and must return within the tick budget; evidence, not proof',
        'design_ref': 'DESIGN.md 5.9',
        'level_note': 'trusted: /verif/ref/iso.py (BFS canonical form, cross-checked against brute-force bijection search); termination is judged by a deterministic tick budget, never by wall clock',
    },
    'C15': {
        'quick': {'rounds': 32, 'wall_cap_s': 150},
        'thorough': {'rounds': 192, 'wall_cap_s': 2400},
        'rule': ('cases = (object, word list): DFAs (1-5 states), NFAs (1-6 states, epsilon density up to .6, epsilon self-loops/cycles, '
                 'dict and defaultdict transition maps), PDAs (1-4 states, all four transition shapes, closure limit knob in {20,60,200,1000}) '
                 'and CNF grammars (1-5 variables); words = accepted words up to length 4-5 chosen with the reference (shortest + longest) plus '
                 'rejected words for NFA/PDA; both leftmost and rightmost for grammars; 30% of the automata are edited in place after the first pass and simulated again; a few PDAs per round have a large finite closure (2047 configurations) with the limit raised above its default; one evaluation = one library call under the tick budget. '
                 'distinct = distinct abstract object; non-trivial = some valid run of length >= 3 with an epsilon step (automata) / derivation of length >= 3.'),
        'schedule_measure': 'distinct (abstract object, iteration order of its Q/Sigma/Gamma/F/V sets) pairs',
        'assumptions': COMMON_ASSUMPTIONS + ['a call that does not return within 400k (PDA: 1.2M) ticks is counted as not returning in finite time',
                                             'PDA narrowing: a witness is demanded when the library\'s own pda_accepts_word says True under the current limit, or when every exact epsilon-closure fits under the limit (then acceptance is complete by C09)'],
        'expected_probes': ['kind_dfa', 'kind_nfa', 'kind_pda', 'kind_cfg', 'epsilon_cycle_present', 'run_with_epsilon_steps', 'nontrivial', 'limit_above_default', 'inplace_edit_between_calls'],
        'technique': 'deterministic simulation: seeded search over set-iteration schedules (PYTHONHASHSEED x renaming x insertion order) under a simulated tick clock (bounded liveness); independent witness re-checker; minimised replay files; also object-lifetime histories inside each pristine interpreter (in-place edits of the live object between calls, earlier calls on twin objects) and the logging knob',
        'level_text': 'seeded sampling of automata/grammars x words x schedules; every returned run/derivation is re-checked step by step against the snapshot by an independent checker, acceptance comes from the reference, and every call must return within the tick budget; evidence, not proof',
        'design_ref': 'DESIGN.md 5.6',
        'level_note': 'trusted: witness checkers in props/c15.py and ref/cfg.py, reference acceptance (ref/fa.py, ref/pda.py); termination judged by deterministic tick budget',
    },
    'C06': {
        'quick': {'rounds': 32, 'wall_cap_s': 150},
        'thorough': {'rounds': 192, 'wall_cap_s': 2400},
        'rule': ('cases = (a) regular-expression trees with 0-10 operator nodes over <= 3 single-letter symbols (leaf mix drawn per case, '
                 'corner corpus with 0/1 under star and in products) -> regexp_to_nfa; (b) complete DFAs with 1-5 states (+<=1 unreachable), |Sigma| 1-2, '
                 'and split-state DFAs -> dfa_to_regexp; also three-symbol DFAs with <= 4 states, binary alphabets {0,1} (the letters 0 and 1 are also the constants of the regexp syntax), earlier conversions of a twin / another DFA in the same interpreter (35%), in-place edit then reconversion (25%); states renamed and list-shuffled per case (names start/accept and set-like names in the pool), run under the round\'s '
                 'PYTHONHASHSEED in a pristine fork. Oracle: exact language equality of canonical minimal DFAs. distinct = distinct abstract input; '
                 'non-trivial = language neither empty nor Sigma* (and >= 2 states for DFAs).'),
        'schedule_measure': 'distinct (abstract input, iteration order of the DFA\'s Q/Sigma/F sets resp. of the result NFA\'s Q) pairs; the elimination order is the iteration order of Q - {start, accept}',
        'assumptions': COMMON_ASSUMPTIONS + ['inputs are bounded (<= 6 DFA states) because extracted expressions grow exponentially; larger inputs are excluded for cost only'],
        'expected_probes': ['kind_regexp', 'kind_dfa', 'nontrivial', 'state_named_start_or_accept', 'alphabet_contains_0_or_1', 'three_symbols',
                            'earlier_conversions_in_same_interpreter', 'inplace_edit_between_calls'],
        'technique': 'deterministic simulation: seeded search over state-elimination schedules (PYTHONHASHSEED x renaming x insertion order); exact language-equality oracle via reference Thompson/subset/minimal-DFA; minimised replay files; also object-lifetime histories inside each pristine interpreter (in-place edits of the live object between calls, earlier calls on twin objects) and the logging knob',
        'level_text': 'seeded sampling of regular expressions and DFAs x elimination orders; exact (all word lengths) language comparison against independent reference constructions; evidence, not proof',
        'design_ref': 'DESIGN.md 5.3',
        'level_note': 'trusted: /verif/ref/regexp.py (Thompson; cross-checked against Brzozowski derivatives) and /verif/ref/fa.py',
    },
    'C08': {
        'quick': {'rounds': 32, 'wall_cap_s': 150},
        'thorough': {'rounds': 384, 'wall_cap_s': 2400},
        'rule': ('cases = grammars with 1-6 variables (12%: padded to 23-30 variables incl. multi-letter names so that cfg_fresh_variable crosses its '
                 '26 boundary), 0-3 rules per variable of length 0-4 over <= 3 terminals; drawn features: epsilon rules, unit rules and unit cycles, '
                 'shared right-hand sides, start variable on a right-hand side, useless variables; variables renamed (A-Z permutation / multi-letter) and sets '
                 'list-shuffled per case; per case: cfg_to_chomsky, the five phase functions in pipeline order (each on the previous output) and '
                 'cfg_apply_chomsky(G, phase, hint) with clashing and non-clashing hints (evaluations counts calls); in a quarter of the cases a twin grammar (same rules, other start variable) is converted first in the same interpreter, and in a quarter the live grammar is edited in place (rule added/removed, start variable changed) and converted again. Oracle: bounded language equality '
                 '(words <= 4..7 depending on |Sigma|, reference fixpoint on both sides), phase postconditions, new start variable not among the old variables, '
                 'validity, argument snapshot incl. rule order. distinct = distinct abstract grammar; non-trivial = >= 2 words within the bound and some phase after the first changes the rule set.'),
        'schedule_measure': 'distinct (abstract grammar, iteration order of its V and Sigma sets) pairs',
        'assumptions': COMMON_ASSUMPTIONS + ['language comparison is bounded in word length (can refute, not prove, equality)',
                                             'phases are only applied in pipeline order, which is all the statement promises'],
        'expected_probes': ['at_least_26_variables', 'multi_letter_variable', 'nullable_start', 'hint_clashes_with_variable', 'nontrivial',
                            'apply_phase_0', 'apply_phase_1', 'apply_phase_2', 'apply_phase_3', 'apply_phase_4', 'apply_phase_5',
                            'earlier_conversion_of_twin', 'inplace_edit_between_calls'],
        'technique': 'deterministic simulation: seeded search over variable-iteration schedules (PYTHONHASHSEED x variable renaming x insertion order); bounded reference-language oracle plus phase postconditions and argument snapshots; minimised replay files; also object-lifetime histories inside each pristine interpreter (in-place edits of the live object between calls, earlier calls on twin objects) and the logging knob',
        'level_text': 'seeded sampling of grammars x schedules; every phase result is compared with an independent bounded language fixpoint, its own postcondition is re-checked by reference predicates, and the argument is snapshotted before/after (rule order included); evidence, not proof',
        'design_ref': 'DESIGN.md 5.4',
        'level_note': 'trusted: /verif/ref/cfg.py (fixpoint cross-checked against CYK on CNF grammars); bounded word length',
    },
    'C09': {
        'quick': {'rounds': 32, 'wall_cap_s': 150},
        'thorough': {'rounds': 192, 'wall_cap_s': 2400},
        'rule': ('cases = sessions over one PDA (1-4 states, |Sigma| 1-2, |Gamma| 1-2, 1-8 transitions of the four shapes push/pop/replace/no-op, '
                 'epsilon moves incl. stack-growing and stack-neutral cycles) of 6-8 steps "set closure limit; pda_accepts_word(P, w)" with |w| <= 4; '
                 'limits drawn from {0,1,2,3,5,10,40,150,1000} and from {exact largest closure size -1, +0, +1} computed by the reference; two sessions per round use a PDA with a large finite closure (511-4095 configurations) and limits on both sides of it and of the default 1000 (up to 5000); one step in five is an in-place edit of the live PDA (transition added/removed, accepting bit flipped, an *_in_place normal form); states/symbols/epsilon '
                 'renamed per case, run under the round\'s PYTHONHASHSEED in a pristine fork (one evaluation = one call). Oracle: exact acceptance by '
                 'matched push/pop summaries (unbounded stacks, epsilon cycles); soundness demanded always, completeness when every exact closure has <= limit configurations. '
                 'distinct = distinct abstract PDA; non-trivial = some epsilon-closure of the session has >= 3 configurations.'),
        'schedule_measure': 'distinct (abstract PDA, iteration order of its Q/Sigma/Gamma/F sets) pairs; truncation order is todo.pop()',
        'assumptions': COMMON_ASSUMPTIONS + ['"each epsilon-closure it has to compute" is read as the exact closed configuration sets C0, C1, ... of the textbook algorithm'],
        'expected_probes': ['closure_exceeds_limit', 'closure_exceeds_1000', 'limit_equals_closure_size', 'limit_is_closure_size_plus_one',
                            'limit_is_closure_size_minus_one', 'truncated_and_accepting', 'truncated_and_missed', 'nontrivial',
                            'limit_above_default_and_closure_between', 'inplace_edit_between_calls'],
        'technique': 'deterministic simulation: seeded sessions over the ambient closure-limit knob x truncation schedules (PYTHONHASHSEED x renaming); exact reference acceptance (matched push/pop summaries) and exact closure sizes; minimised replay files; also object-lifetime histories inside each pristine interpreter (in-place edits of the live object between calls, earlier calls on twin objects) and the logging knob',
        'level_text': 'seeded sampling of PDAs x words x limit settings x schedules; soundness is checked unconditionally and completeness exactly when the reference proves every closure fits under the limit; evidence, not proof',
        'design_ref': 'DESIGN.md 5.5',
        'level_note': 'trusted: /verif/ref/pda.py (summaries cross-checked against capped configuration BFS in selftest and again inside every case that BFS can decide)',
    },
    'C02': {
        'quick': {'rounds': 32, 'wall_cap_s': 150},
        'thorough': {'rounds': 256, 'wall_cap_s': 2400},
        'rule': ('cases = sessions of 3 steps over one object of one of the six kinds (DFA/NFA <= 5 states, PDA <= 4 states, TM <= 4 working states with partial delta, '
                 'CFG <= 4 variables with epsilon/unit/cyclic rules, regexp <= 8 operators over single letters); a step draws n in 0..5 (0 and 1 over-weighted) and, '
                 'for PDAs, sets the ambient closure limit (fixed list and exact-closure-size -1/0/+1/+5), for TMs passes max_steps in {0,1,2,5,20,1000}; regexp alphabets include the letters 0 and 1; 4% of the PDA sessions use a large finite closure with limits up to 5000; per step: '
                 'X_words_up_to_n, brute force over Sigma^<=n through the library\'s own X_accepts_word under the same knobs, and generate_language (one evaluation = one step). '
                 'PDA equality is demanded only when no pda_epsilon_closure call of the step returned a non-closed set (observed through a wrapper, checked with the reference step relation); a non-closed set although the exact closure fits under the configured limit is itself reported (closure-truncated-below-limit). '
                 'distinct = distinct abstract object; non-trivial = some step whose accepted set is neither empty nor Sigma^<=n.'),
        'schedule_measure': 'distinct (abstract object, iteration order of its Q/Sigma/Gamma/F/V sets) pairs',
        'assumptions': COMMON_ASSUMPTIONS + ['the oracle is the library\'s own acceptance test, as the statement says; its correctness is the business of other properties',
                                             'multi-character regexp symbols and the set pass-through of generate_language are not among "the six kinds" and are not generated'],
        'expected_probes': ['kind_dfa', 'kind_nfa', 'kind_pda', 'kind_tm', 'kind_cfg', 'kind_regexp', 'n_0', 'n_1', 'n_2', 'closure_truncated', 'nontrivial', 'regexp_symbol_0_or_1'],
        'technique': 'deterministic simulation: seeded sessions over ambient knobs (closure limit, TM step budget, n) x schedules (PYTHONHASHSEED x renaming); brute-force oracle through the library\'s own acceptance test; truncation observed at the pda_epsilon_closure seam; minimised replay files; also object-lifetime histories inside each pristine interpreter (in-place edits of the live object between calls, earlier calls on twin objects) and the logging knob',
        'level_text': 'seeded sampling of objects of all six kinds x bounds x knob settings x schedules, three sub-checks per step (nothing longer than n, nothing missing, nothing extra) plus generate_language == direct call; candidly, for five of the six kinds this is input generation riding along with the PDA/TM configuration dimension; evidence, not proof',
        'design_ref': 'DESIGN.md 5.1',
        'level_note': 'trusted: the wrapper that observes closure truncation (ref/pda.py step relation); the library\'s own acceptance tests are the oracle by definition of the property',
    },
    'C18': {
        'quick': {'rounds': 32, 'wall_cap_s': 150},
        'thorough': {'rounds': 512, 'wall_cap_s': 2400},
        'rule': ('cases = sessions (pristine fork each, so the step list is the whole history since interpreter start): 2-5 base NFAs (1-3 states, arbitrary names incl. '
                 'q0,q1,.. i.e. exactly the names the hidden generators hand out later; epsilon symbol drawn from {\'\', ε, _, e}; dict and defaultdict transition maps; partial relations; 30% with several delta keys holding the SAME set object) '
                 'followed by 3-9 constructions nfa_union / nfa_concatenation / nfa_repetition with the default or a private IdentifierGenerator, on bases and on results of earlier steps; '
                 'base NFAs are occasionally edited in place between constructions; pairs are built from disjoint bases and a step is skipped when its operands are not state-disjoint (precondition) (one evaluation = one construction call). '
                 'Oracle: reference validator, exact language equality with reference union/concat/star of the operand snapshots taken before the call, an introduced state that is not an operand state, '
                 'all pool objects unchanged after the call. distinct = distinct session; non-trivial = some operand is itself a result of an earlier construction.'),
        'schedule_measure': 'distinct (session, iteration order of each base NFA\'s state set) pairs; history measure: hidden-counter values at which a construction ran and operation bigrams are in coverage.histogram',
        'assumptions': COMMON_ASSUMPTIONS + ['narrowing: both operands of one call share the same epsilon symbol'],
        'expected_probes': ['non_default_epsilon', 'private_generator', 'next_default_name_is_an_operand_state', 'nontrivial',
                            'operand_with_shared_target_sets', 'inplace_edit_between_calls'],
        'technique': 'deterministic simulation: seeded operation histories in pristine interpreters (hidden name generators and aliasing are the state under test) x schedules; reference union/concat/star oracle with exact language equality and snapshots after every step; ddmin over the step list; minimised replay files; base NFAs with aliased target sets, multi-character epsilon symbols and in-place edits between constructions',
        'level_text': 'seeded sampling of call histories over a pool of NFAs; every construction result is compared exactly (all word lengths) with the reference construction on pre-call snapshots, and every pool object is re-snapshotted after every step; evidence, not proof',
        'design_ref': 'DESIGN.md 5.7',
        'level_note': 'trusted: /verif/ref/fa.py incl. ref_union/ref_concat/ref_star (cross-checked against bounded enumeration in selftest)',
    },
    'C19': {
        'quick': {'rounds': 8, 'wall_cap_s': 300, 'replicas': 4, 'logging_replica': True},
        'thorough': {'rounds': 32, 'wall_cap_s': 3000, 'replicas': 4, 'logging_replica': True},
        'selftest': {'rounds': 1, 'wall_cap_s': 200, 'replicas': 2, 'logging_replica': True},
        'rule': ('a bundle = one session spec (9-14 objects of all six kinds built from seeded specs over a 1-2 letter alphabet, then 36-60 calls drawn from a registry of ~175 public entry points (set-iterating ones weighted x3): step functions, right-linear conversions, object-level notebook checkers, dot / sigma / str printers, '
                 'acceptance tests, enumerators, minimisers, products, complement/reverse/prefix-free, conversions (nfa_to_dfa, dfa_to_regexp, regexp_to_nfa, cfg_to_chomsky and its phases, pda_to_cfg, PDA normal forms), '
                 'printers, generate_language, accept/reject checkers and ~40 text-level entry points of the notebooks with correct, perturbed and ill-formed answers, among them the check_*_language_from_file checkers, whose answer file the harness writes under one path per interpreter with modification times from a simulated file clock (a quarter of a second per write); results join the pool and become operands; a quarter of the sessions use the alphabet {0,1}; made objects get twins that differ in one component only (q0, F, start variable, or for regexps the symbol 0/1 versus the constant 0/1 - same printed form); 5% of the steps edit a made object in place, by hand or through an *_in_place library function) executed by 5 replicas: '
                 '4 fresh interpreters with different PYTHONHASHSEED plus one with GambaTools.enable_logging=True; inside each replica the session runs in a pristine fork and one call in three and every text-level checker call is re-executed alone '
                 '(arguments rebuilt from their pre-call snapshots) in another pristine fork. One evaluation = one operation call. Oracles: every pool object is re-snapshotted after every step (argument integrity); the ambient settings (the two library knobs, recursion limit, working directory, sys.path, warning filters, environment, sys.stdout) must have their entry values after every call; sampled calls are repeated at once on the same objects and must give the same outcome; '
                 'per-step outcome digests (exact language for DFA/NFA/regexp results, bounded language for CFG/PDA results, value for bools/sets, OK/not-OK for checkers, exception type) must agree across replicas, '
                 'between session and solo execution, and between logging on/off. distinct non-trivial = distinct (session, step) whose operand was produced by an earlier step or used before.'),
        'schedule_measure': 'distinct (session, hash seed, logging) executions',
        'assumptions': COMMON_ASSUMPTIONS + ['witness lists (simulation runs, derivations) are not compared across replicas: C15 allows any valid witness',
                                             'CFG and PDA results are compared on words of bounded length (<= 4 resp. <= 3)',
                                             'a consistent exception (e.g. dfa_make_total: RecursionError) is agreement, not a violation of this property'],
        'expected_probes': ['nontrivial_steps', 'solo_reexecutions', 'pda_call_with_truncated_closure', 'inplace_edit_between_calls', 'repeated_calls'],
        'technique': 'deterministic simulation of replicas: one seeded operation history executed by several fresh interpreters (different PYTHONHASHSEED, logging on/off) and re-executed step-wise in pristine forks; differential oracle on language-level outcome digests plus snapshots after every step; ddmin over the step list inside the same two interpreters; replay files confirmed in fresh interpreters; twins, in-place edits and undecodable alphabets in the sessions; interpreter-wide ambient state checked after every call; answer files under a simulated file clock',
        'level_text': 'seeded sampling of call histories x hash seeds x logging; argument integrity is checked after every step in every replica, and replica / solo / logging agreement is checked on every step outcome; evidence, not proof',
        'design_ref': 'DESIGN.md 5.8',
        'level_note': 'trusted: outcome digests (reference canonical forms from /verif/ref), snapshots; only agreement is judged here, not correctness of the agreed value (that is the business of the other properties)',
    },
}
