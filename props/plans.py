"""Per-property run plans and evidence texts.  Imported by the coordinator, which must not import gambatools."""

COMMON_ASSUMPTIONS = [
    'sampling, not proof: a clean run is evidence only for the schedules, histories, knob settings and inputs explored',
    'reference models in /verif/ref are correct (each is cross-checked against a second formulation by ./check selftest)',
    'every explored set order is one CPython 3.12 really produces for some (PYTHONHASHSEED, element names, insertion order); '
    'orders CPython cannot produce are not explored',
    'the tick clock (sys.monitoring PY_START + backward JUMP in gambatools code) is a faithful deterministic proxy for "finite time"',
]

PLANS = {
    'C04': {
        'quick': {'rounds': 32, 'wall_cap_s': 150},
        'thorough': {'rounds': 96, 'wall_cap_s': 1500},
        'rule': ('cases = seeded random complete DFAs (1-7 core states + 0-3 unreachable, |Sigma| 0-3, accepting ratio drawn from '
                 '{0,.1,.5,.9,1}), DFAs with deliberately split (equivalent) states, and a fixed corner corpus; each renamed '
                 'injectively and list-shuffled (insertion order) per case, run under the round\'s PYTHONHASHSEED in a pristine fork; '
                 'all three minimisers per case (evaluations counts minimiser calls). distinct = distinct abstract (pre-renaming) DFA; '
                 'non-trivial = >=2 Nerode classes and at least one mergeable pair of states.'),
        'schedule_measure': 'distinct (abstract DFA, iteration order of its Q/Sigma/F sets in the executing process) pairs',
        'assumptions': COMMON_ASSUMPTIONS,
        'expected_probes': ['has_unreachable', 'F_empty', 'F_full', 'one_state', 'sigma_empty', 'logging_on', 'nontrivial'],
    },
}
