"""C20 — dfa_isomorphic1 / dfa_isomorphic decide isomorphism of the reachable parts, and terminate.
Dimensions: schedule (pair-exploration order = set_element(todo), hash seed x renaming), simulated clock."""
import copy
import json

from props.common import call, viol, hx
from sim.objects import build, snapshot, order_fingerprint
from ref import fa, iso
from gen import fa as genfa, edits
import gambatools.dfa_algorithms as da

ID = 'C20'
FUNCS = ('dfa_isomorphic1', 'dfa_isomorphic')
BUDGET = 300_000


def _pair(rng):
    k = rng.randint(1, 3) if rng.random() < 0.9 else 0
    a = genfa.abstract_dfa(rng, 1, 6, k, k, unreachable_max=2) if rng.random() < 0.7 else {**genfa.structured_dfa(rng)}
    k = len(a['Sigma'])
    kind = rng.choice(['copy', 'copy', 'copy_unreach', 'minimised', 'split', 'other', 'mut_delta', 'mut_delta', 'mut_F', 'self'])
    b = copy.deepcopy(a)
    if kind == 'copy_unreach':
        b = genfa.add_unreachable(b, rng, rng.randint(1, 2))
    elif kind == 'minimised':
        b = genfa.spec_of_canon(fa.canon_of(a))
    elif kind == 'split':
        q = rng.choice(b['Q'])
        nq = 'x%d' % len(b['Q'])
        b['Q'].append(nq)
        if q in b['F']:
            b['F'].append(nq)
        for p, s, t in list(b['delta']):
            if p == q:
                b['delta'].append([nq, s, t])
        for d in b['delta']:
            if d[2] == q and rng.random() < 0.5:
                d[2] = nq
    elif kind == 'other':
        b = genfa.abstract_dfa(rng, 1, 6, k, k, unreachable_max=2)
    elif kind == 'mut_delta' and b['delta']:
        i = rng.randrange(len(b['delta']))
        b['delta'][i][2] = rng.choice(b['Q'])
    elif kind == 'mut_F':
        q = rng.choice(b['Q'])
        if q in b['F']:
            b['F'].remove(q)
        else:
            b['F'].append(q)
    return a, b, kind


def gen_cases(rng, tier, rnd):
    n = {'quick': 400, 'thorough': 2000, 'selftest': 80}[tier]
    cases = []
    if rnd < 2:
        for c in genfa.CORNER_DFAS:
            s1, r1 = genfa.rename_states(c, rng)
            s2, r2 = genfa.rename_states(c, rng)
            cases.append({'d1': s1, 'd2': s2, 'rank1': r1, 'rank2': r2, 'abs': hx([c, c]), 'kind': 'corner'})
    while len(cases) < n:
        a, b, kind = _pair(rng)
        s1, r1 = genfa.rename_states(a, rng)
        if kind == 'self' or rng.random() < 0.05:
            s2, r2 = copy.deepcopy(s1), r1      # literally the same names
        else:
            s2, r2 = genfa.rename_states(b, rng)
        # common symbol renaming
        syms = sorted(set(a['Sigma']))
        new = rng.sample('abcdefghijklmnopqrstuvwxyz0123456789', len(syms))
        m = dict(zip(syms, new))
        for s in (s1, s2):
            s['Sigma'] = [m[x] for x in s['Sigma']]
            s['delta'] = [[p, m[x], t] for p, x, t in s['delta']]
        case = {'d1': s1, 'd2': s2, 'rank1': r1, 'rank2': r2, 'abs': hx([a, b]), 'kind': kind}
        if rng.random() < 0.5:
            # object-lifetime history: compare, edit one of the two live objects in place, compare again
            which = rng.choice(['d1', 'd2'])
            case['edit'] = [which, edits.propose(rng, case[which])]
        if rng.random() < 0.2:
            case['prelude'] = edits.twin(rng, case['d2'])     # D1 is compared with a twin of D2 earlier in the same interpreter
        if rng.random() < 0.12:
            # how the second operand came to be: not built on its own, but derived from the live first operand - the very
            # same object, a library result that may share components with its argument, or a DFA constructed around
            # D1's own transition map / state set with another initial state or accepting set
            how = rng.choice(['same-object', 'dfa_complement', 'dfa_complement', 'share-delta-other-F', 'share-delta-other-q0', 'share-delta-same',
                              'dfa_remove_unreachable_states', 'dfa_quotient', 'deepcopy'])
            case['derive'] = {'how': how, 'F': [q for q in s1['Q'] if rng.random() < 0.5], 'q0': rng.choice(s1['Q'])}
            case.pop('edit', None)
            case['kind'] = 'derived:' + how
        cases.append(case)
    return cases


def _derive(D1, d):
    from gambatools.dfa import DFA
    how = d['how']
    if how == 'same-object':
        return D1
    if how == 'deepcopy':
        return copy.deepcopy(D1)
    if how in ('dfa_complement', 'dfa_remove_unreachable_states', 'dfa_quotient'):
        return getattr(da, how)(D1)
    F = {q for q in D1.Q if q in set(d['F'])}
    q0 = next((q for q in D1.Q if q == d['q0']), D1.q0)
    if how == 'share-delta-other-F':
        return DFA(D1.Q, D1.Sigma, D1.delta, D1.q0, F)
    if how == 'share-delta-other-q0':
        return DFA(D1.Q, D1.Sigma, D1.delta, q0, D1.F)
    return DFA(D1.Q, D1.Sigma, D1.delta, D1.q0, D1.F)


def run_case(case, env):
    D1, D2 = build(case['d1']), build(case['d2'])
    out = {'viol': [], 'evals': 0, 'ticks': 0, 'probes': {}, 'hist': {}}
    if case.get('derive'):
        try:
            D2 = _derive(D1, case['derive'])
        except Exception as e:
            return {'harness_error': 'cannot derive the second operand (%s): %r' % (case['derive'], e)}
        out['probes']['second_operand_derived_from_first'] = 1
        out['hist']['derive_' + case['derive']['how']] = 1
        if D2.delta is D1.delta:
            out['probes']['operands_share_transition_map'] = 1
    if case.get('prelude'):
        T = build(case['prelude'])
        for fn in FUNCS:
            st, val, ticks = call(env, getattr(da, fn), D1, T, budget=BUDGET)
            st, val, t2 = call(env, getattr(da, fn), T, D1, budget=BUDGET)
            out['ticks'] += ticks + t2
        out['probes']['earlier_calls_on_a_twin'] = 1
    dig = []
    phases = ['fresh'] + (['after-inplace-edit'] if case.get('edit') else [])
    for phase in phases:
        if phase == 'after-inplace-edit':
            which, e = case['edit']
            edits.apply(D1 if which == 'd1' else D2, e)
            out['probes']['inplace_edit_between_calls'] = 1
            if fa.validate_dfa(snapshot(D1)) or fa.validate_dfa(snapshot(D2)):
                return {'harness_error': 'edit produced an invalid DFA: %s' % (case['edit'],)}
        s1, s2 = snapshot(D1), snapshot(D2)
        expected = iso.isomorphic(s1, s2)
        c1, c2 = fa.canon_of(s1), fa.canon_of(s2)
        same_lang = c1 == c2
        n1, n2 = len(iso.bfs_form(s1)[1]), len(iso.bfs_form(s2)[1])
        cls = 'isomorphic' if expected else ('equivalent_not_isomorphic' if same_lang else 'inequivalent')
        out['probes']['pair_' + cls] = 1
        if same_lang and n1 != n2:
            out['probes']['same_language_different_reachable_count'] = 1
        if len(s1['Q']) > n1 or len(s2['Q']) > n2:
            out['probes']['has_unreachable'] = 1
        if case['d1'] == case['d2'] and phase == 'fresh':
            out['probes']['identical_objects'] = 1
        ptag = [phase] if phase != 'fresh' else []
        for fn in FUNCS:
            for (A, B, tag) in ((D1, D2, '12'), (D2, D1, '21')):
                st, val, ticks = call(env, getattr(da, fn), A, B, budget=BUDGET)
                out['evals'] += 1
                out['ticks'] += ticks
                if st == 'timeout':
                    out['viol'].append(viol('no-result-within-budget', fn, {'ticks': ticks, 'expected': expected, 'pair': cls}, tags=[cls] + ptag))
                    dig.append('T')
                elif st == 'exc':
                    out['viol'].append(viol('exception', fn, val, tags=[cls] + ptag))
                    dig.append('E')
                elif val is not True and val is not False:
                    out['viol'].append(viol('non-boolean-answer', fn, repr(val)))
                    dig.append('?')
                else:
                    dig.append(val)
                    if val != expected:
                        out['viol'].append(viol('wrong-answer', fn, {'answered': val, 'expected': expected, 'pair': cls, 'order': tag, 'phase': phase},
                                                tags=['expected-' + str(expected).lower(), cls] + ptag))
        if snapshot(D1) != s1 or snapshot(D2) != s2:
            out['viol'].append(viol('argument-mutated', 'dfa_isomorphic*', None))
    if n1 >= 2 and n2 >= 2:
        out['nontrivial_keys'] = [case['abs']]
        out['probes']['nontrivial'] = 1
    fp = [order_fingerprint(D1, case.get('rank1', {})), order_fingerprint(D2, case.get('rank2', {}))]
    out['scheds'] = [hx([case['abs'], fp])]
    out['digest'] = hx([dig, fp])
    return out


def shrink(case):
    for key in ('edit', 'prelude', 'derive'):
        if case.get(key):
            c = copy.deepcopy(case)
            del c[key]
            yield c
    for which in ('d1', 'd2'):
        for t in genfa.shrink_dfa(case[which], drop_symbols=False):
            c = copy.deepcopy(case)
            c[which] = t
            yield c
    for a in case['d1']['Sigma']:
        c = copy.deepcopy(case)
        for which in ('d1', 'd2'):
            c[which]['Sigma'] = [x for x in c[which]['Sigma'] if x != a]
            c[which]['delta'] = [d for d in c[which]['delta'] if d[1] != a]
        yield c


def sample(case, res):
    return {'D1': case['d1'], 'D2': case['d2'], 'pair_kind': case.get('kind'), 'violations': [v['cls'] for v in res.get('viol', [])]}
