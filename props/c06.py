"""C06 — regexp -> NFA and DFA -> regexp preserve the language exactly (all word lengths).
Dimensions: schedule (state-elimination order `for q_rip in Q - {...}`, hash seed x renaming x insertion order)."""
import copy
import sys

from props.common import call, viol, hx
from sim.objects import build, snapshot, order_fingerprint
from ref import fa, regexp as rrx
from gen import fa as genfa, regexp as genrx
import gambatools.regexp_algorithms as ra

ID = 'C06'
sys.setrecursionlimit(max(sys.getrecursionlimit(), 5000))


def gen_cases(rng, tier, rnd):
    n = {'quick': 300, 'thorough': 1500, 'selftest': 60}[tier]
    cases = []
    if rnd < 2:
        for t in genrx.CORNERS:
            cases.append({'kind': 'rx', 'tree': t, 'abs': hx(t)})
        for c in genfa.CORNER_DFAS:
            s, rank = genfa.rename(c, rng, special_p=0.0)
            cases.append({'kind': 'dfa', 'spec': s, 'rank': rank, 'abs': hx(c)})
    while len(cases) < n:
        if rng.random() < 0.4:
            k = rng.randint(1, 3)
            t = genrx.tree(rng, rng.randint(0, 10), list('abc'[:k]), leaf_weights=rng.choice([(15, 15, 70), (5, 5, 90), (30, 30, 40)]))
            m = dict(zip('abc', rng.sample('abcdefghijklmnopqrstuvwxyz', 3)))
            cases.append({'kind': 'rx', 'tree': genrx.rename_tree(t, m), 'abs': hx(t)})
        else:
            a = genfa.abstract_dfa(rng, 1, 5, 1, 2, unreachable_max=1) if rng.random() < 0.8 else genfa.structured_dfa(rng)
            s, rank = genfa.rename(a, rng, special_p=0.05)
            cases.append({'kind': 'dfa', 'spec': s, 'rank': rank, 'abs': hx(a)})
    return cases


def run_case(case, env):
    out = {'viol': [], 'evals': 1, 'ticks': 0, 'probes': {}, 'hist': {}}
    dig = None
    if case['kind'] == 'rx':
        tree = case['tree']
        R = build({'kind': 'regexp', 'tree': tree})
        st, val, ticks = call(env, ra.regexp_to_nfa, R)
        out['ticks'] += ticks
        site = 'regexp_to_nfa'
        out['probes']['kind_regexp'] = 1
        fp = []
        if snapshot(R)['tree'] != tree:
            out['viol'].append(viol('argument-mutated', site, None))
        if st == 'timeout':
            out['viol'].append(viol('no-result-within-budget', site, val))
        elif st == 'exc':
            out['viol'].append(viol('exception', site, val))
        else:
            try:
                ns = snapshot(val)
                assert ns['kind'] == 'nfa'
            except Exception as e:
                out['viol'].append(viol('invalid-result', site, 'not an NFA: %s' % e))
                ns = None
            if ns is not None:
                problems = fa.validate_nfa(ns)
                if problems:
                    out['viol'].append(viol('invalid-result', site, problems[:3]))
                else:
                    sig = sorted(rrx.symbols(tree) | set(ns['Sigma']))
                    c_ref = rrx.canon_of_regexp(tree, sigma=sig)
                    c_lib = fa.canon_of(ns, sigma=sig)
                    if c_ref != c_lib:
                        out['viol'].append(viol('language-differs', site, {'word': fa.canon_distinguishing_word(c_ref, c_lib), 'regexp': tree}))
                    if not fa.canon_is_empty(c_ref) and not fa.canon_is_universal(c_ref):
                        out['nontrivial_keys'] = [case['abs']]
                        out['probes']['nontrivial'] = 1
                    dig = [len(ns['Q']), hx(c_lib)]
                    fp = [sorted(ns['Q']).index(q) for q in val.Q]
        out['scheds'] = [hx([case['abs'], fp])]
        out['digest'] = hx([dig, fp])
        return out
    # ---- DFA -> regexp
    D = build(case['spec'])
    s0 = snapshot(D)
    site = 'dfa_to_regexp'
    out['probes']['kind_dfa'] = 1
    fp = order_fingerprint(D, case.get('rank', {}))
    st, val, ticks = call(env, ra.dfa_to_regexp, D, budget=6_000_000)
    out['ticks'] += ticks
    if snapshot(D) != s0:
        out['viol'].append(viol('argument-mutated', site, {'before': s0, 'after': snapshot(D)}))
    if {'start', 'accept'} & set(s0['Q']):
        out['probes']['state_named_start_or_accept'] = 1
    if st == 'timeout':
        out['viol'].append(viol('no-result-within-budget', site, val))
    elif st == 'exc':
        tags = ['state-named-start-or-accept'] if ({'start', 'accept'} & set(s0['Q'])) and val.startswith('AssertionError') else []
        out['viol'].append(viol('exception', site, val, tags=tags))
    else:
        try:
            t = snapshot(val)['tree']
        except Exception as e:
            out['viol'].append(viol('invalid-result', site, 'not a regexp: %s' % e))
            t = None
        if t is not None:
            c_in = fa.canon_of(s0)
            extra = rrx.symbols(t) - set(s0['Sigma'])
            if extra:
                out['viol'].append(viol('language-differs', site, {'symbols_outside_alphabet': sorted(extra)}))
            else:
                c_out = rrx.canon_of_regexp(t, sigma=s0['Sigma'])
                if c_in != c_out:
                    out['viol'].append(viol('language-differs', site, {'word': fa.canon_distinguishing_word(c_in, c_out)}))
                out['hist']['regexp_nodes'] = rrx.size(t)
                dig = hx(c_out)
            if len(s0['Q']) >= 2 and not fa.canon_is_empty(c_in) and not fa.canon_is_universal(c_in):
                out['nontrivial_keys'] = [case['abs']]
                out['probes']['nontrivial'] = 1
    out['scheds'] = [hx([case['abs'], fp])]
    out['digest'] = hx([dig, fp])
    return out


def _subtrees(t):
    if t[0] in ('star',):
        yield t[1]
    elif t[0] in ('sum', 'cat'):
        yield t[1]
        yield t[2]


def _shrink_tree(t):
    # replace the tree by a child, or shrink a child in place
    for c in _subtrees(t):
        yield c
    if t[0] == 'star':
        for c in _shrink_tree(t[1]):
            yield ['star', c]
    elif t[0] in ('sum', 'cat'):
        for c in _shrink_tree(t[1]):
            yield [t[0], c, t[2]]
        for c in _shrink_tree(t[2]):
            yield [t[0], t[1], c]
    elif t[0] == 'sym':
        yield ['1']


def shrink(case):
    if case['kind'] == 'rx':
        for t in _shrink_tree(case['tree']):
            c = copy.deepcopy(case)
            c['tree'] = t
            yield c
    else:
        for t in genfa.shrink_dfa(case['spec']):
            c = copy.deepcopy(case)
            c['spec'] = t
            yield c


def sample(case, res):
    d = {'kind': case['kind'], 'violations': [v['cls'] for v in res.get('viol', [])]}
    d['input'] = case.get('tree') or case.get('spec')
    return d
