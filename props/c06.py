"""C06 — regexp -> NFA and DFA -> regexp preserve the language exactly (all word lengths).
Dimensions: schedule (state-elimination order `for q_rip in Q - {...}`, hash seed x renaming x insertion order)."""
import copy
import sys

from props.common import call, viol, hx
from sim.objects import build, snapshot, order_fingerprint
from ref import fa, regexp as rrx
from gen import fa as genfa, regexp as genrx, edits
import gambatools.regexp_algorithms as ra

ID = 'C06'
sys.setrecursionlimit(max(sys.getrecursionlimit(), 5000))


def gen_cases(rng, tier, rnd):
    n = {'quick': 300, 'thorough': 1500, 'selftest': 60}[tier]
    cases = []
    if rnd < 2:
        for t in genrx.CORNERS:
            cases.append({'kind': 'rx', 'tree': t, 'abs': hx(t)})
        for c in genfa.CORNER_DFAS:
            s, rank = genfa.rename(c, rng, special_p=0.0)
            cases.append({'kind': 'dfa', 'spec': s, 'rank': rank, 'abs': hx(c)})
    while len(cases) < n:
        if rng.random() < 0.4:
            k = rng.randint(1, 3)
            t = genrx.tree(rng, rng.randint(0, 10), list('abc'[:k]), leaf_weights=rng.choice([(15, 15, 70), (5, 5, 90), (30, 30, 40)]))
            pool = list('abcdefghijklmnopqrstuvwxyz') + (['0', '1'] * 10 if rng.random() < 0.4 else [])
            vals = rng.sample(pool, 3)
            if len(set(vals)) < 3:
                continue
            m = dict(zip('abc', vals))
            case = {'kind': 'rx', 'tree': genrx.rename_tree(t, m), 'abs': hx(t)}
            if rng.random() < 0.3:
                # history: other expressions are converted earlier in the same interpreter and their results are kept
                case['also'] = [genrx.rename_tree(genrx.tree(rng, rng.randint(0, 5), list('abc'[:rng.randint(1, 3)])), m) for _ in range(rng.randint(1, 2))]
            cases.append(case)
        else:
            r = rng.random()
            if r < 0.25:
                a = genfa.abstract_dfa(rng, 1, 4, 3, 3, unreachable_max=0)          # three symbols
            elif r < 0.85:
                a = genfa.abstract_dfa(rng, 1, 5, 1, 2, unreachable_max=1)
            else:
                a = genfa.structured_dfa(rng)
            s, rank = genfa.rename(a, rng, special_p=0.05)
            if rng.random() < 0.3 and len(s['Sigma']) <= 2:
                # binary alphabets: the symbols 0 and 1 are also the constants of the regexp syntax
                m = dict(zip(sorted(s['Sigma']), rng.sample(['0', '1'], len(s['Sigma']))))
                s['Sigma'] = [m[x] for x in s['Sigma']]
                s['delta'] = [[p, m[x], t] for p, x, t in s['delta']]
                rank['Sigma'] = {m[k]: v for k, v in rank['Sigma'].items() if k in m}
            case = {'kind': 'dfa', 'spec': s, 'rank': rank, 'abs': hx(a)}
            if rng.random() < 0.35:
                # history: other conversions happen earlier in the same interpreter (a twin, another DFA, names start/accept)
                pre = []
                for _ in range(rng.randint(1, 2)):
                    if rng.random() < 0.4:
                        pre.append(edits.twin(rng, s))
                    else:
                        b = genfa.abstract_dfa(rng, 1, 3, len(s['Sigma']), len(s['Sigma']), unreachable_max=0)
                        pre.append(genfa.rename(b, rng, special_p=0.3, keep_symbols=True)[0])
                case['prelude'] = pre
            if rng.random() < 0.25:
                case['edit'] = edits.propose(rng, s)
            cases.append(case)
    return cases


def run_case(case, env):
    out = {'viol': [], 'evals': 1, 'ticks': 0, 'probes': {}, 'hist': {}}
    dig = None
    if case['kind'] == 'rx' and case.get('also'):
        # mini-session: every earlier result must still be a valid NFA for its own expression after later conversions
        kept = []
        out['probes']['kind_regexp'] = 1
        out['probes']['earlier_conversions_in_same_interpreter'] = 1
        out['evals'] = 0
        for t in case['also'] + [case['tree']]:
            R = build({'kind': 'regexp', 'tree': t})
            st, val, ticks = call(env, ra.regexp_to_nfa, R, budget=20_000_000)
            out['ticks'] += ticks
            out['evals'] += 1
            if st == 'ok':
                kept.append((t, val))
            elif st == 'timeout':
                out['viol'].append(viol('no-result-within-budget', 'regexp_to_nfa', val))
            else:
                out['viol'].append(viol('exception', 'regexp_to_nfa', val))
            for (t0, N0) in kept:
                try:
                    ns = snapshot(N0)
                    problems = fa.validate_nfa(ns)
                except Exception as e:
                    problems = ['unsnapshotable: %s' % e]
                if problems:
                    out['viol'].append(viol('invalid-result', 'regexp_to_nfa', {'regexp': t0, 'problems': problems[:3], 'after_converting': t}, tags=['earlier-result']))
                    continue
                sig = sorted(rrx.symbols(t0) | set(ns['Sigma']))
                if rrx.canon_of_regexp(t0, sigma=sig) != fa.canon_of(ns, sigma=sig):
                    out['viol'].append(viol('language-differs', 'regexp_to_nfa', {'regexp': t0, 'after_converting': t}, tags=['earlier-result'] if t0 is not t else []))
        c_main = rrx.canon_of_regexp(case['tree'])
        if not fa.canon_is_empty(c_main) and not fa.canon_is_universal(c_main):
            out['nontrivial_keys'] = [case['abs']]
            out['probes']['nontrivial'] = 1
        out['scheds'] = [hx([case['abs'], len(kept)])]
        out['digest'] = hx([len(kept), [len(N.Q) for _, N in kept]])
        return out
    if case['kind'] == 'rx':
        tree = case['tree']
        R = build({'kind': 'regexp', 'tree': tree})
        st, val, ticks = call(env, ra.regexp_to_nfa, R, budget=20_000_000)
        out['ticks'] += ticks
        site = 'regexp_to_nfa'
        out['probes']['kind_regexp'] = 1
        fp = []
        if snapshot(R)['tree'] != tree:
            out['viol'].append(viol('argument-mutated', site, None))
        if st == 'timeout':
            out['viol'].append(viol('no-result-within-budget', site, val))
        elif st == 'exc':
            out['viol'].append(viol('exception', site, val))
        else:
            try:
                ns = snapshot(val)
                assert ns['kind'] == 'nfa'
            except Exception as e:
                out['viol'].append(viol('invalid-result', site, 'not an NFA: %s' % e))
                ns = None
            if ns is not None:
                problems = fa.validate_nfa(ns)
                if problems:
                    out['viol'].append(viol('invalid-result', site, problems[:3]))
                else:
                    sig = sorted(rrx.symbols(tree) | set(ns['Sigma']))
                    c_ref = rrx.canon_of_regexp(tree, sigma=sig)
                    c_lib = fa.canon_of(ns, sigma=sig)
                    if c_ref != c_lib:
                        out['viol'].append(viol('language-differs', site, {'word': fa.canon_distinguishing_word(c_ref, c_lib), 'regexp': tree}))
                    if not fa.canon_is_empty(c_ref) and not fa.canon_is_universal(c_ref):
                        out['nontrivial_keys'] = [case['abs']]
                        out['probes']['nontrivial'] = 1
                    dig = [len(ns['Q']), hx(c_lib)]
                    fp = [sorted(ns['Q']).index(q) for q in val.Q]
        out['scheds'] = [hx([case['abs'], fp])]
        out['digest'] = hx([dig, fp])
        return out
    # ---- DFA -> regexp: a mini-session in one pristine interpreter
    site = 'dfa_to_regexp'
    out['probes']['kind_dfa'] = 1
    out['evals'] = 0
    todo = [(sp, 'prelude') for sp in case.get('prelude', [])] + [(case['spec'], 'main')]
    if case.get('prelude'):
        out['probes']['earlier_conversions_in_same_interpreter'] = 1
    fp = []
    D = None
    phases = list(todo) + ([(None, 'after-inplace-edit')] if case.get('edit') else [])
    for sp, role in phases:
        if role == 'after-inplace-edit':
            edits.apply(D, case['edit'])
            if fa.validate_dfa(snapshot(D)):
                return {'harness_error': 'edit produced an invalid DFA: %s' % (case['edit'],)}
            out['probes']['inplace_edit_between_calls'] = 1
        else:
            # rename of abstract symbols in a prelude DFA keeps the alphabet size but not the letters: harmless
            D = build(sp)
        s0 = snapshot(D)
        tags = [] if role == 'main' else [role]
        if role == 'main':
            fp = order_fingerprint(D, case.get('rank', {}))
        out['evals'] += 1
        st, val, ticks = call(env, ra.dfa_to_regexp, D, budget=40_000_000)
        out['ticks'] += ticks
        if snapshot(D) != s0:
            out['viol'].append(viol('argument-mutated', site, {'before': s0, 'after': snapshot(D)}, tags=tags))
        if {'start', 'accept'} & set(s0['Q']):
            out['probes']['state_named_start_or_accept'] = 1
        if set(s0['Sigma']) & {'0', '1'}:
            out['probes']['alphabet_contains_0_or_1'] = 1
        if len(s0['Sigma']) >= 3:
            out['probes']['three_symbols'] = 1
        if st == 'timeout':
            out['viol'].append(viol('no-result-within-budget', site, val, tags=tags))
            continue
        if st == 'exc':
            t2 = ['state-named-start-or-accept'] if ({'start', 'accept'} & set(s0['Q'])) and val.startswith('AssertionError') else []
            out['viol'].append(viol('exception', site, val, tags=tags + t2))
            continue
        try:
            t = snapshot(val)['tree']
        except Exception as e:
            out['viol'].append(viol('invalid-result', site, 'not a regexp: %s' % e, tags=tags))
            continue
        c_in = fa.canon_of(s0)
        extra = rrx.symbols(t) - set(s0['Sigma'])
        if extra:
            out['viol'].append(viol('language-differs', site, {'symbols_outside_alphabet': sorted(extra)}, tags=tags))
        else:
            c_out = rrx.canon_of_regexp(t, sigma=s0['Sigma'])
            if c_in != c_out:
                out['viol'].append(viol('language-differs', site, {'word': fa.canon_distinguishing_word(c_in, c_out), 'dfa': s0}, tags=tags))
            out['hist']['regexp_nodes'] = out['hist'].get('regexp_nodes', 0) + rrx.size(t)
            dig = [dig, hx(c_out)]
        if role == 'main' and len(s0['Q']) >= 2 and not fa.canon_is_empty(c_in) and not fa.canon_is_universal(c_in):
            out['nontrivial_keys'] = [case['abs']]
            out['probes']['nontrivial'] = 1
    out['scheds'] = [hx([case['abs'], fp])]
    out['digest'] = hx([dig, fp])
    return out


def _subtrees(t):
    if t[0] in ('star',):
        yield t[1]
    elif t[0] in ('sum', 'cat'):
        yield t[1]
        yield t[2]


def _shrink_tree(t):
    # replace the tree by a child, or shrink a child in place
    for c in _subtrees(t):
        yield c
    if t[0] == 'star':
        for c in _shrink_tree(t[1]):
            yield ['star', c]
    elif t[0] in ('sum', 'cat'):
        for c in _shrink_tree(t[1]):
            yield [t[0], c, t[2]]
        for c in _shrink_tree(t[2]):
            yield [t[0], t[1], c]
    elif t[0] == 'sym':
        yield ['1']


def shrink(case):
    if case['kind'] == 'rx':
        if case.get('also'):
            for i in range(len(case['also'])):
                c = copy.deepcopy(case)
                del c['also'][i]
                yield c
        for t in _shrink_tree(case['tree']):
            c = copy.deepcopy(case)
            c['tree'] = t
            yield c
    else:
        if case.get('edit'):
            c = copy.deepcopy(case); del c['edit']
            yield c
        for i in range(len(case.get('prelude', []))):
            c = copy.deepcopy(case)
            del c['prelude'][i]
            yield c
        for i, sp in enumerate(case.get('prelude', [])):
            for t in genfa.shrink_dfa(sp):
                c = copy.deepcopy(case)
                c['prelude'][i] = t
                yield c
        for t in genfa.shrink_dfa(case['spec']):
            c = copy.deepcopy(case)
            c['spec'] = t
            yield c


def sample(case, res):
    d = {'kind': case['kind'], 'violations': [v['cls'] for v in res.get('viol', [])]}
    d['input'] = case.get('tree') or case.get('spec')
    return d
