"""C09 — pda_accepts_word: sound for every limit, complete whenever every epsilon-closure fits under the limit.
Dimensions: configuration (GambaTools.pda_epsilon_closure_max_iterations as ambient state, changed between calls of one
session), schedule (which configurations survive truncation is decided by todo.pop(): hash seed x renaming)."""
import copy

from props.common import call, viol, hx, set_knobs
from sim.objects import build, snapshot, order_fingerprint
from ref import fa, pda as rpda
from gen import fa as genfa, pda as genpda, edits
import gambatools.pda_algorithms as pa

ID = 'C09'
LIMITS = [0, 1, 2, 3, 5, 10, 40, 40, 150, 1000]


def _steps(rng, spec, n_steps):
    words = fa.words_upto(sorted(spec['Sigma']), 4)
    steps = []
    for _ in range(n_steps):
        w = rng.choice(words) if rng.random() < 0.8 else rng.choice(words[:7])
        r = rng.random()
        if r < 0.5:
            sizes, within, _ = rpda.closure_sizes(spec, w, 300)
            m = max(sizes)
            L = max(0, m + rng.choice([-1, 0, 0, 1]))
        else:
            L = rng.choice(LIMITS)
        if L >= 150 and len(w) > 2 and not rpda.closure_sizes(spec, '', 300)[1]:
            w = w[:2]       # unbounded closure and a large limit: the sets grow by ~2*limit configurations per letter
        steps.append([L, w])
        if rng.random() < 0.2:
            # object-lifetime history: the same PDA object is edited in place between two queries
            steps.append(['edit', edits.propose(rng, spec)])
    return steps


def gen_cases(rng, tier, rnd):
    n = {'quick': 220, 'thorough': 1100, 'selftest': 50}[tier]
    cases = []
    if rnd < 2:
        for c in genpda.CORNERS:
            for _ in range(3):
                s, rank = genfa.rename(c, rng)
                cases.append({'spec': s, 'rank': rank, 'abs': hx(c), 'steps': _steps(rng, s, 8)})
    for _ in range({'quick': 2, 'thorough': 6, 'selftest': 1}[tier]):
        # closures between 1000 and 4100 configurations, limits on both sides of them and of the default 1000
        a = genpda.big_closure_pda(rng)
        s, rank = genfa.rename(a, rng)
        m = max(rpda.closure_sizes(s, '', 6000)[0])
        lims = [m - 1, m, m + 1, 1000, 999, 1001, 1500, 3000, 5000, m // 2]
        steps = [[max(1, rng.choice(lims)), rng.choice(['', s['Sigma'][0], s['Sigma'][0] * 2])] for _ in range(4)]
        cases.append({'spec': s, 'rank': rank, 'abs': hx(a), 'steps': steps, 'big': True})
    while len(cases) < n:
        r0 = rng.random()
        a = genpda.needle_pda(rng) if r0 < 0.06 else ({**genpda.ambiguous_stack_pda(rng), 'keep_gamma': True} if r0 < 0.1 else
                                                      (genpda.chain_pda(rng) if r0 < 0.18 else (genpda.dense_epsilon_pda(rng) if r0 < 0.25 else genpda.abstract_pda(rng))))
        s, rank = genfa.rename(a, rng)
        s['dd'] = rng.random() < 0.7        # else a plain dict that has only the keys of the transitions
        cases.append({'spec': s, 'rank': rank, 'abs': hx(a), 'steps': _steps(rng, s, 6)})
    return cases


def run_case(case, env):
    P = build(case['spec'])
    s0 = snapshot(P)
    out = {'viol': [], 'evals': 0, 'ticks': 0, 'probes': {}, 'hist': {}}
    dig = []
    nontrivial = False
    for L, w in case['steps']:
        if L == 'edit':
            set_knobs(limit=1000)
            try:
                edits.apply(P, w)
            except Exception as e:
                out['probes']['edit_raised'] = 1       # e.g. a library in-place normal form refusing its input
            s0 = snapshot(P)
            if rpda.validate(s0):
                return {'harness_error': 'edit produced an invalid PDA: %s' % (w,)}
            out['probes']['inplace_edit_between_calls'] = 1
            dig.append(['edit', hx(s0)])
            continue
        set_knobs(limit=L)
        st, val, ticks = call(env, pa.pda_accepts_word, P, w, budget=5 * (300_000 + 6000 * (max(L, 1000) + 30) * (len(w) + 1) ** 2))
        out['evals'] += 1
        out['ticks'] += ticks
        site = 'pda_accepts_word'
        if st == 'timeout':
            out['viol'].append(viol('no-result-within-budget', site, {'word': w, 'limit': L, 'ticks': ticks}))
            dig.append('T')
            break       # one exceeded budget per case is enough
        if st == 'exc':
            out['viol'].append(viol('exception', site, {'word': w, 'limit': L, 'exc': val}))
            dig.append('E')
            continue
        if val is not True and val is not False:
            out['viol'].append(viol('non-boolean-answer', site, repr(val)))
            continue
        exact = rpda.accepts(s0, w)
        sizes, within, bfs_acc = rpda.closure_sizes(s0, w, L)
        if within and bfs_acc != exact:
            return {'harness_error': 'reference models disagree on %r: summaries=%s bfs=%s for %s' % (w, exact, bfs_acc, s0)}
        if max(sizes) >= 3:
            nontrivial = True
        if not within:
            out['probes']['closure_exceeds_limit'] = 1
            if L >= 1000:
                out['probes']['closure_exceeds_1000'] = 1
        if L > 1000 and within and max(sizes) > 1000:
            out['probes']['limit_above_default_and_closure_between'] = 1
        if within and max(sizes) == L:
            out['probes']['limit_equals_closure_size'] = 1
        if within and max(sizes) == L - 1:
            out['probes']['limit_is_closure_size_plus_one'] = 1
        if (not within) and max(sizes) == L + 1:
            out['probes']['limit_is_closure_size_minus_one'] = 1
        if val and not exact:
            out['viol'].append(viol('unsound-accept', site, {'word': w, 'limit': L}, tags=['within-limit' if within else 'truncated']))
        elif within and val != exact:
            out['viol'].append(viol('incomplete-below-limit', site, {'word': w, 'limit': L, 'closure_sizes': sizes}))
        if val and not within:
            out['probes']['truncated_and_accepting'] = 1
        if exact and not val and not within:
            out['probes']['truncated_and_missed'] = 1
        dig.append([L, w, val if within else 'free'])   # outside the limit the answer may legitimately depend on the schedule
    set_knobs(limit=1000)
    if snapshot(P) != s0:
        out['viol'].append(viol('argument-mutated', 'pda_accepts_word', None))
    if nontrivial:
        out['nontrivial_keys'] = [case['abs']]
        out['probes']['nontrivial'] = 1
    fp = order_fingerprint(P, case.get('rank', {}))
    out['scheds'] = [hx([case['abs'], fp])]
    out['digest'] = hx([dig, fp])
    return out


def shrink(case):
    from props.c15 import _shrink_pda
    for i in range(len(case['steps'])):
        if len(case['steps']) > 1:
            c = copy.deepcopy(case)
            del c['steps'][i]
            yield c
    for t in _shrink_pda(case['spec']):
        c = copy.deepcopy(case)
        c['spec'] = t
        yield c
    for i, (L, w) in enumerate(case['steps']):
        if L == 'edit':
            continue
        for j in range(len(w)):
            c = copy.deepcopy(case)
            c['steps'][i][1] = w[:j] + w[j + 1:]
            yield c
        for L2 in (0, 1, 2, 3, 5, 10):
            if L2 < L:
                c = copy.deepcopy(case)
                c['steps'][i][0] = L2
                yield c


def sample(case, res):
    return {'pda': case['spec'], 'steps_limit_word': case['steps'], 'violations': [v['cls'] for v in res.get('viol', [])]}
