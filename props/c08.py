"""C08 — Chomsky conversion, phase by phase: same language, own postcondition, fresh variables, input untouched.
Dimensions: schedule (`for A in V` in unit-rule elimination and fresh-variable naming; hash seed x variable renaming x insertion order)."""
import copy

from props.common import call as _call, viol, hx


def call(env, fn, *a, **k):
    k.setdefault('budget', 20_000_000)      # termination is not what this property is about: generous budget, see DESIGN 8.6
    return _call(env, fn, *a, **k)
from sim.objects import build, snapshot, order_fingerprint
from ref import cfg as rcfg
from gen import cfg as gencfg, edits
import gambatools.cfg_algorithms as ca
import gambatools.notebook_chomsky as nc

ID = 'C08'
PHASES = [
    ('cfg_add_new_start_variable', 'start-variable-on-rhs-or-not-new'),
    ('cfg_remove_epsilon_rules', 'epsilon-rule-remains'),
    ('cfg_eliminate_unit_rules', 'unit-rule-remains'),
    ('cfg_make_rules_of_length_two', 'long-rule-remains'),
    ('cfg_eliminate_terminals', 'not-chomsky'),
]


def _bound(spec):
    k = len(spec['Sigma'])
    return {0: 3, 1: 7, 2: 5}.get(k, 4)


def gen_cases(rng, tier, rnd):
    n = {'quick': 150, 'thorough': 750, 'selftest': 40}[tier]
    cases = []
    if rnd < 2:
        for c in gencfg.CORNERS:
            for _ in range(2):
                s, rank = gencfg.rename(c, rng)
                cases.append({'spec': s, 'rank': rank, 'abs': hx(c), 'hint': 'S', 'phase': rng.randint(0, 5)})
    while len(cases) < n:
        a = gencfg.cnf_shaped_cfg(rng) if rng.random() < 0.08 else gencfg.abstract_cfg(rng)
        big = rng.random() < 0.2
        if big:
            a = gencfg.pad_variables(rng, a, rng.choice([22, 23, 24, 24, 25, 25, 26, 26, 27, 30]))
        s, rank = gencfg.rename(a, rng, multi_p=(rng.choice([0.0, 0.3]) if big else rng.choice([0.0, 0.0, 0.2])), upper_only=rng.random() < 0.7)
        # hint for the new start variable: clashes with an existing variable in a share of the cases
        hint = rng.choice(['S', 'S', s['S'], rng.choice(s['V']), 'T', 'S0'])
        case = {'spec': s, 'rank': rank, 'abs': hx(a), 'hint': hint, 'phase': rng.randint(0, 5)}
        if rng.random() < 0.25:
            tw = edits.twin(rng, s)          # same rules, other start variable: converted earlier in the same interpreter
            if tw:
                case['prelude'] = [tw]
        if rng.random() < 0.25:
            case['edit'] = edits.propose(rng, s)   # convert, edit the live grammar in place, convert again
        cases.append(case)
    return cases


def _post(k, g, v_before):
    """Own postcondition of phase k (1-based) on result snapshot g."""
    if k == 1:
        return rcfg.start_not_on_rhs(g) and g['S'] not in v_before
    if k == 2:
        return rcfg.no_epsilon_rules_except_start(g)
    if k == 3:
        return rcfg.no_unit_rules(g)
    if k == 4:
        return rcfg.rhs_at_most_two(g)
    return rcfg.is_cnf(g)


def run_case(case, env):
    out = {'viol': [], 'evals': 0, 'ticks': 0, 'probes': {}, 'hist': {}}
    for tw in case.get('prelude', []):
        # history: an earlier conversion of a twin grammar (its result is judged like any other)
        T = build(tw)
        t0 = snapshot(T)
        st, val, ticks = call(env, ca.cfg_to_chomsky, T)
        out['evals'] += 1
        out['ticks'] += ticks
        out['probes']['earlier_conversion_of_twin'] = 1
        if st == 'ok':
            try:
                g = snapshot(val)
                nb_ = _bound(t0)
                if not rcfg.validate(g) and rcfg.lang_upto(g, nb_) != rcfg.lang_upto(t0, nb_):
                    out['viol'].append(viol('language-differs', 'cfg_to_chomsky', {'twin': True}, tags=['prelude']))
            except Exception:
                pass
    G = build(case['spec'])
    s0 = snapshot(G)
    n = _bound(s0)
    L0 = rcfg.lang_upto(s0, n)
    dig = []
    changed_rules = False
    if len(s0['V']) >= 26:
        out['probes']['at_least_26_variables'] = 1
    if any(len(v) > 1 for v in s0['V']):
        out['probes']['multi_letter_variable'] = 1
    if '' in L0:
        out['probes']['nullable_start'] = 1
    if case['hint'] in s0['V']:
        out['probes']['hint_clashes_with_variable'] = 1

    def judge(site, st, val, ticks, before, Lbefore, posts, arg_obj):
        """Common oracle for one call: returns result snapshot or None."""
        out['evals'] += 1
        out['ticks'] += ticks
        after_arg = snapshot(arg_obj)
        if after_arg != before:
            out['viol'].append(viol('argument-mutated', site, {'before': before, 'after': after_arg}))
        if st == 'timeout':
            out['viol'].append(viol('no-result-within-budget', site, val))
            return None
        if st == 'exc':
            out['viol'].append(viol('exception', site, val))
            return None
        try:
            g = snapshot(val)
            assert g['kind'] == 'cfg'
        except Exception as e:
            out['viol'].append(viol('invalid-result', site, 'not a CFG: %s' % e))
            return None
        problems = rcfg.validate(g)
        if problems:
            out['viol'].append(viol('invalid-result', site, problems[:3]))
            return g
        if not set(before['V']) <= set(g['V']):
            out['probes']['result_dropped_a_variable'] = 1     # not forbidden by the statement: observed, not judged
        L1 = rcfg.lang_upto(g, n)
        if L1 != Lbefore:
            diff = sorted(L1 ^ Lbefore, key=lambda w: (len(w), w))
            out['viol'].append(viol('language-differs', site, {'word': diff[0], 'only_in': 'result' if diff[0] in L1 else 'input', 'bound': n}))
        for k, cls in posts:
            if not _post(k, g, set(before['V'])):
                out['viol'].append(viol(cls, site, {'result': _show(g)}))
        return g

    # 1. whole conversion
    st, val, ticks = call(env, ca.cfg_to_chomsky, G)
    g = judge('cfg_to_chomsky', st, val, ticks, s0, L0, [(5, 'not-chomsky')], G)
    if g is not None:
        dig.append(len(g['R']))
    # 2. the five phases, in pipeline order, each on the output of the previous one
    cur_obj, cur_snap, cur_L = G, s0, L0
    for k, (fname, cls) in enumerate(PHASES, start=1):
        fn = getattr(ca, fname)
        st, val, ticks = call(env, fn, cur_obj)
        g = judge(fname, st, val, ticks, cur_snap, cur_L, [(k, cls)], cur_obj)
        if g is None or st != 'ok':
            break
        if sorted(map(repr, g['R'])) != sorted(map(repr, cur_snap['R'])) and k > 1:
            changed_rules = True
        cur_obj, cur_snap = val, g
        cur_L = rcfg.lang_upto(g, n)
        dig.append(len(g['R']))
    # 3. the notebook entry point, with a hint
    ph = case.get('phase', 5)
    st, val, ticks = call(env, nc.cfg_apply_chomsky, G, ph, case['hint'])
    posts = [(k, PHASES[k - 1][1]) for k in range(1, ph + 1) if k in (1, ph) or k == 5]
    g = judge('cfg_apply_chomsky', st, val, ticks, s0, L0, [(k, c) for k, c in posts if k == ph or (k == 1 and ph >= 1)], G)
    if g is not None:
        dig.append([ph, len(g['R'])])
    out['probes']['apply_phase_%d' % ph] = 1
    if case.get('edit'):
        try:
            edits.apply(G, case['edit'])
        except Exception:
            pass
        s1 = snapshot(G)
        if not rcfg.validate(s1) and s1 != s0:
            out['probes']['inplace_edit_between_calls'] = 1
            L1 = rcfg.lang_upto(s1, n)
            n0 = len(out['viol'])
            st, val, ticks = call(env, ca.cfg_to_chomsky, G)
            g = judge('cfg_to_chomsky', st, val, ticks, s1, L1, [(5, 'not-chomsky')], G)
            st, val, ticks = call(env, nc.cfg_apply_chomsky, G, 3, case['hint'])
            g = judge('cfg_apply_chomsky', st, val, ticks, s1, L1, [(3, 'unit-rule-remains')], G)
            for v in out['viol'][n0:]:
                v['tags'] = list(v.get('tags', [])) + ['after-inplace-edit']
    if len(L0) >= 2 and changed_rules:
        out['nontrivial_keys'] = [case['abs']]
        out['probes']['nontrivial'] = 1
    fp = order_fingerprint(G, case.get('rank', {}))
    out['scheds'] = [hx([case['abs'], fp])]
    out['digest'] = hx([dig, fp])
    return out


def _show(g):
    return ['%s -> %s' % (A, ' '.join(x[0] for x in rhs) or 'ε') for A, rhs in g['R']][:30] + ['S=' + g['S']]


def shrink(case):
    s = case['spec']
    for key in ('edit', 'prelude'):
        if case.get(key):
            c = copy.deepcopy(case)
            del c[key]
            yield c
    for i in range(len(s['R'])):
        c = copy.deepcopy(case)
        del c['spec']['R'][i]
        yield c
    used = {A for A, _ in s['R']} | {x[0] for _, rhs in s['R'] for x in rhs if x[1] == 'V'} | {s['S']}
    for v in s['V']:
        if v not in used:
            c = copy.deepcopy(case)
            c['spec']['V'] = [x for x in s['V'] if x != v]
            yield c
    for i, (A, rhs) in enumerate(s['R']):
        for j in range(len(rhs)):
            c = copy.deepcopy(case)
            del c['spec']['R'][i][1][j]
            yield c
    if case.get('hint') != 'S':
        c = copy.deepcopy(case)
        c['hint'] = 'S'
        yield c
    if case.get('phase', 5) != 5:
        c = copy.deepcopy(case)
        c['phase'] = 5
        yield c


def sample(case, res):
    s = case['spec']
    return {'grammar': _show(s), 'V': s['V'], 'hint': case['hint'], 'apply_phase': case.get('phase'), 'violations': [v['cls'] for v in res.get('viol', [])]}
