"""C19 — pure operations keep their operands intact; results are independent of history, hash seed and logging.

A *bundle* is one session spec executed by several replicas (fresh interpreters with different hash seeds, one with
logging on).  This module is the replica side: it runs one session in a pristine fork and returns, per step, an
outcome digest (language-level for objects, value-level for bools/sets, OK/not-OK for checkers) plus the
intra-replica violations (argument integrity after every step; history independence through *solo* re-executions
of sampled steps in another pristine fork).  The cross-replica comparison lives in sim/bundle.py.
"""
import copy
import io
import sys

from props.common import call, viol, hx, set_knobs
from props import c19_meta
from sim.objects import build, snapshot, _plain, kind_of, rebuild_hints
from ref import fa, cfg as rcfg, pda as rpda, regexp as rrx
from gen import fa as genfa, pda as genpda, cfg as gencfg, regexp as genrx, tm as gentm, names, edits
import gambatools.dfa_algorithms as da
import gambatools.nfa_algorithms as na
import gambatools.pda_algorithms as pa
import gambatools.tm_algorithms as ta
import gambatools.cfg_algorithms as ca
import gambatools.regexp_algorithms as ra
import gambatools.regexp as rx
import gambatools.language_generator as lg
import gambatools.language_algorithms as la
import gambatools.notebook as nb
import gambatools.notebook_dfa as nbd
import gambatools.notebook_nfa2dfa as nbn
import gambatools.notebook_cfg as nbc
import gambatools.notebook_chomsky as nbch
import gambatools.notebook_experimental as nbx
from gambatools.regexp_simple_parser import parse_simple_regexp
from gambatools.regexp_parser import parse_regexp

ID = 'C19'
GENERIC_LOGGING_KNOB = False     # this property manages the logging knob itself
sys.setrecursionlimit(max(sys.getrecursionlimit(), 5000))
BUDGET = 3_000_000
MAX_STATES = 24


# ------------------------------------------------------------------ outcome digests

def d_value(v, ctx):
    return hx(_plain(v))


def d_fa(v, ctx):
    s = snapshot(v)
    if s['kind'] == 'dfa':
        bad = fa.validate_dfa(s)
    else:
        bad = fa.validate_nfa(s)
    if bad:
        return 'invalid:' + hx(s)
    return hx(fa.canon_of(s))


def d_rx(v, ctx):
    t = snapshot(v)['tree']
    if rrx.size(t) > 6000:
        return 'big'
    return hx(rrx.canon_of_regexp(t, sigma=sorted(set(ctx['sigma']) | rrx.symbols(t))))


def d_cfg(v, ctx):
    s = snapshot(v)
    if rcfg.validate(s):
        return 'invalid:' + hx(sorted(map(repr, s['R'])))
    n = 4 if len(s['R']) < 80 else 3
    return hx([s['S'] in s['V'], sorted(rcfg.lang_upto(s, n))])


def d_pda(v, ctx):
    s = snapshot(v)
    if rpda.validate(s):
        return 'invalid:' + hx(s)
    return hx(sorted(w for w in fa.words_upto(sorted(s['Sigma']), 3) if rpda.accepts(s, w)))


def d_none(v, ctx):
    return '-'


def _d_text(parser):
    def f(v, ctx):
        if not isinstance(v, str):
            return 'nontext:' + hx(_plain(v))
        try:
            return 'parsed:' + hx(snapshot(parser(v)))
        except Exception as e:
            return 'unparsable:' + type(e).__name__
    return f


def _d_text_rx(parser):
    def f(v, ctx):
        if not isinstance(v, str):
            return 'nontext:' + hx(_plain(v))
        try:
            t = snapshot(parser(v))['tree']
        except Exception as e:
            return 'unparsable:' + type(e).__name__
        if rrx.size(t) > 6000:
            return 'parsed:big'
        return 'parsed:' + hx(rrx.canon_of_regexp(t, sigma=sorted(set(ctx['sigma']) | rrx.symbols(t))))
    return f


def d_feedback(v, ctx):
    """check_equal_languages returns a feedback list; which counterexample it names may depend on set order."""
    return 'OK' if not v else 'not-OK'


def d_verdict(v, ctx):
    out = ctx['stdout']
    first = out.strip().split('\n')[0] if out.strip() else ''
    return 'OK' if first.startswith('OK') else 'not-OK'


# ------------------------------------------------------------------ operation registry

class Op:
    def __init__(self, name, args, fn, digest, out=None, params=(), pre=None):
        self.name, self.args, self.fn, self.digest, self.out, self.params, self.pre = name, args, fn, digest, out, params, pre


def _same_sigma(a, b):
    return a.Sigma == b.Sigma


OPS = {}


def op(name, args, fn, digest, out=None, params=(), pre=None):
    OPS[name] = Op(name, args, fn, digest, out, params, pre)


# DFA
op('dfa_accepts_word', ['dfa'], lambda D, w: da.dfa_accepts_word(D, w), d_value, params=('w',))
op('dfa_words_up_to_n', ['dfa'], lambda D, n: da.dfa_words_up_to_n(D, n), d_value, params=('n',))
op('dfa_simulate_word', ['dfa'], lambda D, w: da.dfa_simulate_word(D, w), d_value, params=('w',))
op('dfa_minimize', ['dfa'], da.dfa_minimize, d_fa, out='dfa')
op('dfa_quotient', ['dfa'], da.dfa_quotient, d_fa, out='dfa')
op('dfa_hopfcroft', ['dfa'], da.dfa_hopfcroft, d_fa, out='dfa')
op('dfa_complement', ['dfa'], da.dfa_complement, d_fa, out='dfa')
op('dfa_union', ['dfa', 'dfa'], da.dfa_union, d_fa, out='dfa')
op('dfa_intersection', ['dfa', 'dfa'], da.dfa_intersection, d_fa, out='dfa')
op('dfa_symmetric_difference', ['dfa', 'dfa'], da.dfa_symmetric_difference, d_fa, out='dfa')
op('dfa_reverse', ['dfa'], da.dfa_reverse, d_fa, out='nfa')
op('dfa_no_prefix', ['dfa'], da.dfa_no_prefix, d_fa, out='nfa')
op('dfa_no_extend', ['dfa'], da.dfa_no_extend, d_fa, out='dfa')
op('dfa_remove_unreachable_states', ['dfa'], da.dfa_remove_unreachable_states, d_fa, out='dfa')
op('dfa_reachable_states', ['dfa'], lambda D: da.dfa_reachable_states(D, D.q0), d_value)
op('dfa_make_total', ['dfa'], da.dfa_make_total, d_fa, out=None)
op('dfa_to_regexp', ['dfa'], ra.dfa_to_regexp, d_rx, out='regexp')
op('dfa_isomorphic1', ['dfa', 'dfa'], da.dfa_isomorphic1, d_value)
op('dfa_isomorphic', ['dfa', 'dfa'], da.dfa_isomorphic, d_value)
op('print_dfa', ['dfa'], da.print_dfa, _d_text(da.parse_dfa))
op('str_dfa', ['dfa'], lambda D: str(D), d_none)
# NFA
op('nfa_accepts_word', ['nfa'], lambda N, w: na.nfa_accepts_word(N, w), d_value, params=('w',))
op('nfa_words_up_to_n', ['nfa'], lambda N, n: na.nfa_words_up_to_n(N, n), d_value, params=('n',))
op('nfa_simulate_word', ['nfa'], lambda N, w: na.nfa_simulate_word(N, w), d_none, params=('w',))
op('nfa_to_dfa', ['nfa'], na.nfa_to_dfa, d_fa, out='dfa')
op('epsilon_closure_q0', ['nfa'], lambda N: na.epsilon_closure(N, N.q0), d_value)
op('epsilon_closure_all', ['nfa'], lambda N: N.E(set(N.F)), d_value)
op('nfa_union', ['nfa', 'nfa'], lambda A, B: na.nfa_union(A, B), d_fa, out='nfa')
op('nfa_concatenation', ['nfa', 'nfa'], lambda A, B: na.nfa_concatenation(A, B), d_fa, out='nfa')
op('nfa_repetition', ['nfa'], lambda A: na.nfa_repetition(A), d_fa, out='nfa')
op('print_nfa', ['nfa'], na.print_nfa, _d_text(na.parse_nfa))
# PDA
op('pda_accepts_word', ['pda'], lambda P, w: pa.pda_accepts_word(P, w), d_value, params=('w',))
op('pda_words_up_to_n', ['pda'], lambda P, n: pa.pda_words_up_to_n(P, min(n, 2)), d_value, params=('n',))
op('pda_simulate_word', ['pda'], lambda P, w: pa.pda_simulate_word(P, w), d_none, params=('w',))
op('pda_to_push_pop', ['pda'], pa.pda_to_push_pop, d_pda, out='pda')
op('pda_to_accept_on_empty_stack', ['pda'], pa.pda_to_accept_on_empty_stack, d_pda, out='pda')
op('pda_to_cfg', ['pda'], pa.pda_to_cfg, d_cfg, out=None)
op('pda_is_push_pop', ['pda'], pa.pda_is_push_pop, d_value)
op('print_pda', ['pda'], pa.print_pda, _d_text(pa.parse_pda))
# TM
op('tm_accepts_word', ['tm'], lambda T, w: ta.tm_accepts_word(T, w, 200), d_value, params=('w',))
op('tm_simulate_word', ['tm'], lambda T, w: ta.tm_simulate_word(T, w, 60), d_value, params=('w',))
op('tm_words_up_to_n', ['tm'], lambda T, n: ta.tm_words_up_to_n(T, min(n, 3), 100), d_value, params=('n',))
op('print_tm', ['tm'], ta.print_tm, _d_text(ta.parse_tm))
# CFG
op('cfg_accepts_word', ['cfg'], lambda G, w: ca.cfg_accepts_word(G, w), d_value, params=('w',))
op('cfg_words_up_to_n', ['cfg'], lambda G, n: ca.cfg_words_up_to_n(G, min(n, 3)), d_value, params=('n',))
op('cfg_to_chomsky', ['cfg'], ca.cfg_to_chomsky, d_cfg, out='cfg')
op('cfg_add_new_start_variable', ['cfg'], ca.cfg_add_new_start_variable, d_cfg, out='cfg')
op('cfg_remove_epsilon_rules', ['cfg'], ca.cfg_remove_epsilon_rules, d_cfg, out='cfg')
op('cfg_eliminate_unit_rules', ['cfg'], ca.cfg_eliminate_unit_rules, d_cfg, out='cfg')
op('cfg_make_rules_of_length_two', ['cfg'], ca.cfg_make_rules_of_length_two, d_cfg, out='cfg')
op('cfg_eliminate_terminals', ['cfg'], ca.cfg_eliminate_terminals, d_cfg, out='cfg')
op('cfg_remove_inproductive_variables', ['cfg'], ca.cfg_remove_inproductive_variables, d_cfg, out='cfg')
op('cfg_remove_useless_rules', ['cfg'], ca.cfg_remove_useless_rules, d_cfg, out='cfg')
op('cfg_apply_chomsky', ['cfg'], lambda G, n: nbch.cfg_apply_chomsky(G, n % 6, 'S'), d_cfg, out='cfg', params=('n',))
op('cfg_nullable_variables', ['cfg'], ca.cfg_nullable_variables, d_value)
op('cfg_productive_variables', ['cfg'], ca.cfg_productive_variables, d_value)
op('cfg_cyk_matrix', ['cfg'], lambda G, w: dict(ca.cfg_cyk_matrix(G, w)) if w else None, d_value, params=('w',), pre=lambda G: G.is_chomsky())
op('cfg_derive_word', ['cfg'], lambda G, w: ca.cfg_derive_word(G, w, 'leftmost'), d_none, params=('w',), pre=lambda G: G.is_chomsky())
op('cfg_print_simple', ['cfg'], ca.cfg_print_simple, _d_text(ca.parse_simple_cfg))
op('cfg_is_chomsky', ['cfg'], lambda G: G.is_chomsky(), d_value)
# regexp
op('regexp_accepts_word', ['regexp'], lambda r, w: ra.regexp_accepts_word(r, w), d_value, params=('w',))
op('regexp_words_up_to_n', ['regexp'], lambda r, n: ra.regexp_words_up_to_n(r, min(n, 3)), d_value, params=('n',))
op('regexp_simplify', ['regexp'], ra.regexp_simplify, d_rx, out='regexp')
op('regexp_to_nfa', ['regexp'], ra.regexp_to_nfa, d_fa, out='nfa')
op('print_regexp', ['regexp'], rx.print_regexp, _d_text_rx(parse_regexp))
op('print_regexp_simple', ['regexp'], rx.print_regexp_simple, _d_text_rx(parse_simple_regexp))
# finite languages given as plain word sets (the pass-through branch of the generic generator)
op('generate_language_words', ['words'], lambda L, n: lg.generate_language(L, n), d_value, params=('n',))
op('check_equal_languages_words_dfa', ['words', 'dfa'], lambda L, D: lg.check_equal_languages(L, D, 3), d_feedback)
op('check_equal_languages_dfa_words', ['dfa', 'words'], lambda D, L: lg.check_equal_languages(D, L, 2), d_feedback)
op('language_reverse_words', ['words'], la.language_reverse, d_value)
op('concatenation_words', ['words', 'words'], la.concatenation, d_value)
op('parse_printed_tm', ['tm'], lambda T: ta.parse_tm(ta.print_tm(T)), d_none, out='tm')      # a machine as the parser builds it (defaultdict transitions)
op('parse_printed_nfa', ['nfa'], lambda N: na.parse_nfa(na.print_nfa(N)), d_fa, out='nfa')
op('parse_printed_pda', ['pda'], lambda P: pa.parse_pda(pa.print_pda(P)), d_pda, out='pda')


# ---- further public entry points (round 8): step functions, right-linear conversions, object-level checkers,
# ---- dot / sigma / str printers (purity and exceptions only: their text lists set elements in iteration order)
import gambatools.dfa_io as dio
import gambatools.nfa_io as nio
import gambatools.gnfa as gnfa_mod
import gambatools.draw_sigma as dsig
import gambatools.notebook_dfa as _nbd


def _first_symbol(A):
    return sorted(A.Sigma)[0] if A.Sigma else A.epsilon


def _pda_start(P):
    return pa.pda_epsilon_closure(P, [pa.PDAState(P.q0, [])])


def _tm_step(T, w):
    tape = list(w) + [T.blank]
    q, head = ta.tm_do_transition(T, T.q0, tape, 0)
    return [q, head, tape]


def _gnfa_text(D):
    G = ra.dfa_to_gnfa(D)
    return gnfa_mod.print_gnfa(G)


def _product_check(A, B):
    D = da.dfa_union(A, B)
    return _nbd.check_product_automaton(D, A, B, da.dfa_union(A, B))


def _product_check_wrong(A, B):
    D = da.dfa_union(A, B)
    return _nbd.check_product_automaton(D, A, B, da.dfa_intersection(A, B))


def _derivation_steps(G):
    out = []
    for r in G.R:
        for mode in ('leftmost', 'rightmost', 'any'):
            out.append(nbc.cfg_has_derivation(G, [G.S, G.S], list(r.alternative.symbols) + [G.S], mode))
            out.append(nbc.cfg_has_derivation(G, [G.S, G.S], [G.S] + list(r.alternative.symbols), mode))
    return out


op('nfa_do_transition', ['nfa'], lambda N: na.nfa_do_transition(N, _first_symbol(N), na.epsilon_closure(N, N.q0)), d_value)
op('pda_epsilon_closure_start', ['pda'], _pda_start, d_value)
op('pda_do_transition', ['pda'], lambda P: pa.pda_do_transition(P, _first_symbol(P), _pda_start(P)), d_value)
op('tm_do_transition', ['tm'], _tm_step, d_value, params=('w',))
op('cfg_is_simple', ['cfg'], ca.cfg_is_simple, d_value)
op('cfg_to_nfa', ['cfg'], ca.cfg_to_nfa, d_fa, out='nfa')
op('cfg_to_dfa', ['cfg'], lambda G: ca.cfg_to_dfa(G, False), d_none)
op('cfg_derivable_variables', ['cfg'], lambda G: ca.cfg_derivable_variables(G, G.S), d_value)
op('cfg_has_derivation', ['cfg'], _derivation_steps, d_value)
op('cfg_print_cyk_matrix', ['cfg'], lambda G, w: ca.cfg_print_cyk_matrix(ca.cfg_cyk_matrix(G, w), len(w)) if w else None, d_none, params=('w',), pre=lambda G: G.is_chomsky())
op('check_cfg_has_start_variable', ['cfg'], lambda G: nbch.check_cfg_has_start_variable(G, G.S), d_feedback)
op('check_cfg_has_no_epsilon_rules', ['cfg'], nbch.check_cfg_has_no_epsilon_rules, d_feedback)
op('check_cfg_has_no_unit_productions', ['cfg'], nbch.check_cfg_has_no_unit_productions, d_feedback)
op('check_cfg_has_rhs_at_most_two', ['cfg'], nbch.check_cfg_has_right_hand_sides_of_length_at_most_two, d_feedback)
op('check_cfg_is_chomsky', ['cfg'], nbch.check_cfg_is_chomsky, d_feedback)
op('regexp_size', ['regexp'], ra.regexp_size, d_value)
op('regexp_symbols', ['regexp'], lambda r: sorted({str(x) for x in ra.regexp_symbols(r)}), d_value)    # Symbol objects hash by identity: the strings are the value
op('print_gnfa_of_dfa', ['dfa'], _gnfa_text, d_none)
op('check_product_automaton', ['dfa', 'dfa'], _product_check, d_feedback)
op('check_product_automaton_wrong', ['dfa', 'dfa'], _product_check_wrong, d_feedback)
op('check_max_states', ['dfa'], lambda D, n: nb.check_max_states(D, n), d_feedback, params=('n',))
op('dfa_to_dot', ['dfa'], dio.dfa_to_dot, d_none)
op('nfa_to_dot', ['nfa'], nio.nfa_to_dot, d_none)
op('dfa_to_sigma', ['dfa'], lambda D: dsig.dfa_to_sigma(D), d_none)
op('nfa_to_sigma', ['nfa'], lambda N: dsig.nfa_to_sigma(N), d_none)
op('pda_to_sigma', ['pda'], lambda P: dsig.pda_to_sigma(P), d_none)
op('tm_to_sigma', ['tm'], lambda T: dsig.tm_to_sigma(T), d_none)
for _k in ('nfa', 'pda', 'tm', 'cfg', 'regexp'):
    op('str_' + _k, [_k], lambda X: str(X), d_none)
op('words_up_to_n_sigma', ['dfa'], lambda D, n: la.words_up_to_n(D.Sigma, min(n, 3)), d_value, params=('n',))
op('compare_languages_words', ['words', 'words'], lg.compare_languages, d_feedback)
op('language_set_operations', ['words', 'words'], lambda A, B: [sorted(la.union(A, B)), sorted(la.intersection(A, B)), sorted(la.symmetric_difference(A, B))], d_value)


def _incomplete_answer(N):
    D = na.nfa_to_dfa(N)
    A = _as_nfa(D)
    keys = sorted(k for k, T in A.delta.items() if T)
    if keys:
        del A.delta[keys[0]]          # the answer of a student who forgot one transition
    return A


def _check_twice(N):
    A = _incomplete_answer(N)
    out = []
    for _ in range(2):                              # the same answer object, checked twice
        try:
            out.append(bool(nbn.check_nfa_to_dfa_answer(N, A)))
        except Exception:
            out.append(True)                        # the public checker prints 'Error: ...' for any exception: not OK
    return out


op('check_nfa_to_dfa_answer_twice', ['nfa'], _check_twice, d_value)
# printer -> parser round trips (the pipeline the notebook generator uses)
op('reparse_dfa', ['dfa'], lambda D: da.parse_dfa(da.print_dfa(D)), d_fa)
op('reparse_nfa', ['nfa'], lambda N: na.parse_nfa(na.print_nfa(N)), d_fa)
op('reparse_pda', ['pda'], lambda P: pa.parse_pda(pa.print_pda(P)), d_pda)
op('reparse_tm', ['tm'], lambda T: snapshot(ta.parse_tm(ta.print_tm(T))), d_value)
op('reparse_cfg', ['cfg'], lambda G: ca.parse_simple_cfg(ca.cfg_print_simple(G)), d_cfg)
op('reparse_regexp', ['regexp'], lambda r: parse_simple_regexp(rx.print_regexp_simple(r)), d_rx)
op('language_helpers', ['dfa'], lambda D, n: [sorted(la.language_reverse(da.dfa_words_up_to_n(D, min(n, 3)))), sorted(la.language_no_prefix(da.dfa_words_up_to_n(D, min(n, 3)))),
                                              sorted(la.language_no_extend(da.dfa_words_up_to_n(D, min(n, 3))))], d_value, params=('n',))
# generic
for _k in ('dfa', 'nfa', 'pda', 'tm', 'cfg', 'regexp'):
    op('generate_language_' + _k, [_k], lambda X, n: lg.generate_language(X, min(n, 2)), d_value, params=('n',))
op('check_equal_languages_dfa_nfa', ['dfa', 'nfa'], lambda A, B: lg.check_equal_languages(A, B, 3), d_feedback)
op('check_equal_languages_regexp_dfa', ['regexp', 'dfa'], lambda A, B: lg.check_equal_languages(A, B, 3), d_feedback)
# checkers on pool objects (accept/reject lists)
op('check_accepts_rejects_dfa', ['dfa'], lambda A, w, w2: nb.check_automaton_accepts_rejects(A, w or 'ε', w2 or 'ε'), d_verdict, params=('w', 'w2'))
op('check_accepts_rejects_nfa', ['nfa'], lambda A, w, w2: nb.check_automaton_accepts_rejects(A, w or 'ε', w2 or 'ε'), d_verdict, params=('w', 'w2'))
op('check_accepts_rejects_cfg', ['cfg'], lambda A, w, w2: nb.check_automaton_accepts_rejects(A, w or 'ε', w2 or 'ε'), d_verdict, params=('w', 'w2'))
op('check_accepts_rejects_regexp', ['regexp'], lambda A, w, w2: nb.check_automaton_accepts_rejects(A, w or 'ε', w2 or 'ε'), d_verdict, params=('w', 'w2'))
op('check_nfa_to_dfa_answer', ['nfa'], lambda N: nbn.check_nfa_to_dfa_answer(N, _as_nfa(na.nfa_to_dfa(N))), d_feedback)


def _as_nfa(D):
    from collections import defaultdict
    from gambatools.nfa import NFA
    delta = defaultdict(set)
    for (q, a), t in D.delta.items():
        delta[q, a] = {t}
    return NFA(set(D.Q), set(D.Sigma), delta, D.q0, set(D.F), '_' if '_' not in D.Sigma else 'ε')


# text-level checkers: texts are rendered by the harness from specs known at generation time
TEXT_CHECKS = {
    'check_dfa_minimal': lambda t: nbd.check_dfa_minimal(t['dfa'], t['answer'], 4),
    'check_dfa_complement': lambda t: nbd.check_dfa_complement(t['answer'], t['dfa'], 4),
    'check_dfa_reverse': lambda t: nbd.check_dfa_reverse(t['dfa'], t['answer'], 4),
    'check_dfa_union': lambda t: nbd.check_dfa_union(t['answer'], t['dfa'], t['dfa2'], 4),
    'check_dfa_intersection': lambda t: nbd.check_dfa_intersection(t['answer'], t['dfa'], t['dfa2'], 4),
    'check_dfa_symmetric_difference': lambda t: nbd.check_dfa_symmetric_difference(t['answer'], t['dfa'], t['dfa2'], 4),
    'check_nfa2dfa': lambda t: nbn.check_nfa2dfa(t['nfa'], t['answer']),
    'check_dfa_language_from_words': lambda t: nb.check_dfa_language_from_words(t['dfa'], t['words'], 3),
    'check_nfa_language_from_words': lambda t: nb.check_nfa_language_from_words(t['nfa'], t['words'], 3),
    'check_dfa2regexp': lambda t: nb.check_dfa2regexp(t['dfa'], t['answer'], 4),
    'cfg_check_chomsky': lambda t: nbch.cfg_check_chomsky(t['cfg'], t['answer'], t['phase'], 'S', 3),
    'check_cfg_accepts_rejects': lambda t: nb.check_cfg_accepts_rejects(t['cfg'], t['acc'], t['rej']),
    'check_cyk_matrix': lambda t: nbc.check_cyk_matrix(t['cfg'], t['word'], t['answer']),
    'check_cfg_derivation': lambda t: nbc.check_cfg_derivation(t['cfg'], t['answer'], t['word'], 'leftmost'),
    'check_dfa_syntax': lambda t: nb.check_dfa_syntax(t['dfa']),
    'check_nfa_syntax': lambda t: nb.check_nfa_syntax(t['nfa']),
    # round 8: the remaining text-level entry points of the notebooks
    'check_pda_language_from_words': lambda t: nb.check_pda_language_from_words(t['pda'], t['words'], 1, t['max_states']),
    'check_tm_language_from_words': lambda t: nb.check_tm_language_from_words(t['tm'], t['words'], 2, t['max_states']),
    'check_cfg_language_from_words': lambda t: nb.check_cfg_language_from_words(t['cfg'], t['words'], 3),
    'check_regexp_language_from_words': lambda t: nb.check_regexp_language_from_words(t['regexp'], t['words'], 3),
    'check_dfa_accepts_rejects': lambda t: nb.check_dfa_accepts_rejects(t['dfa'], t['acc'], t['rej']),
    'check_cfg_accepts': lambda t: nbx.check_cfg_accepts(t['cfg'], t['acc']),
    'check_cfg_rejects': lambda t: nbx.check_cfg_rejects(t['cfg'], t['rej']),
    'check_number_of_nfa_states': lambda t: nb.check_number_of_nfa_states(t['nfa'], t['count']),
    'check_pda_syntax': lambda t: nb.check_pda_syntax(t['pda']),
    'check_tm_syntax': lambda t: nb.check_tm_syntax(t['tm']),
    'dfa_language': lambda t: nb.dfa_language(t['dfa'], t['n']),
    'nfa_language': lambda t: nb.nfa_language(t['nfa'], t['n']),
    'pda_language': lambda t: nb.pda_language(t['pda'], min(t['n'], 1)),
    'tm_language': lambda t: nb.tm_language(t['tm'], min(t['n'], 2)),
    'cfg_language': lambda t: nb.cfg_language(t['cfg'], min(t['n'], 3)),
    'regexp_language': lambda t: nb.regexp_language(t['regexp'], min(t['n'], 3)),
    'nfa_accepts': lambda t: nb.nfa_accepts(t['nfa'], t['word']),
    'regexp_accepts': lambda t: nb.regexp_accepts(t['regexp'], t['word']),
}
# checkers that read the reference answer from a FILE.  The harness writes the file just before the call, always under the
# same path within one interpreter (so a session rewrites it with other contents, as a teacher editing an answer does),
# and sets its modification time from a simulated file clock that advances a quarter of a second per write: several
# versions of the file fall into the same second, deterministically.  The file is removed again after the call.
_FILE_CLOCK = [0]


def _with_answer_file(t, fn):
    import os
    import tempfile
    d = os.path.join(os.environ.get('VERIF_SCRATCH') or tempfile.gettempdir(), 'verif-c19-files-%d' % os.getpid())
    os.makedirs(d, exist_ok=True)
    path = os.path.join(d, 'answer.' + t['answer_ext'])
    _FILE_CLOCK[0] += 1
    stamp = 1_700_000_000 + 0.25 * _FILE_CLOCK[0]
    try:
        with open(path, 'w', encoding='utf8') as f:
            f.write(t['answer_text'])
        os.utime(path, (stamp, stamp))
        return fn(path)
    finally:
        try:
            os.remove(path)
            os.rmdir(d)
        except OSError:
            pass


FILE_CHECKS = {
    'check_dfa_language_from_file': lambda t: _with_answer_file(t, lambda p: nb.check_dfa_language_from_file(t['dfa'], p, 3)),
    'check_nfa_language_from_file': lambda t: _with_answer_file(t, lambda p: nb.check_nfa_language_from_file(t['nfa'], p, 3)),
    'check_regexp_language_from_file': lambda t: _with_answer_file(t, lambda p: nb.check_regexp_language_from_file(t['regexp'], p, 3)),
    'check_cfg_language_from_file': lambda t: _with_answer_file(t, lambda p: nb.check_cfg_language_from_file(t['cfg'], p, 3)),
}
TEXT_CHECKS.update(FILE_CHECKS)
# entry points that RETURN their answer (a printed word list, a bool): the value itself is the outcome
TEXT_VALUES = {'dfa_language', 'nfa_language', 'pda_language', 'tm_language', 'cfg_language', 'regexp_language', 'nfa_accepts', 'regexp_accepts'}


def _text_digest(name, st, val, ctx):
    if st == 'timeout':
        return 'timeout'
    if st != 'ok':
        return 'exc:' + val.split(':')[0]
    if name in TEXT_VALUES:
        return 'val:' + hx([_plain(val), ctx['stdout'].strip().startswith('Error')])
    return d_verdict(None, ctx)


# ------------------------------------------------------------------ text rendering (harness side, from specs)

def render_dfa(s):
    lines = ['states ' + ' '.join(s['Q']), 'initial ' + s['q0'], 'final ' + ' '.join(s['F']), 'input_symbols ' + ' '.join(s['Sigma'])]
    for q, a, t in s['delta']:
        lines.append('%s %s %s' % (q, t, a))
    return '\n'.join(lines)


def render_nfa(s):
    lines = ['states ' + ' '.join(s['Q']), 'initial ' + s['q0'], 'final ' + ' '.join(s['F']), 'input_symbols ' + ' '.join(s['Sigma']), 'epsilon ' + s['eps']]
    for q, a, T in s['delta']:
        for t in T:
            lines.append('%s %s %s' % (q, t, a))
    return '\n'.join(lines)


def render_cfg(s):
    by = {}
    order = []
    for A, rhs in s['R']:
        if A not in by:
            by[A] = []
            order.append(A)
        by[A].append(''.join(x[0] for x in rhs) or 'ε')
    if s['S'] in order:
        order.remove(s['S'])
        order.insert(0, s['S'])
    return '\n'.join('%s -> %s' % (A, ' | '.join(by[A])) for A in order)


def render_pda(s):
    lines = ['states ' + ' '.join(s['Q']), 'initial ' + s['q0'], 'final ' + ' '.join(s['F']), 'input_symbols ' + ' '.join(s['Sigma']),
             'stack_symbols ' + ' '.join(s['Gamma']), 'epsilon ' + s['eps']]
    for p, a, u, T in s['delta']:
        for q, v in T:
            lines.append('%s %s %s,%s%s' % (p, q, a, u, v))
    return '\n'.join(lines)


def render_tm(s):
    lines = ['states ' + ' '.join(s['Q']), 'initial ' + s['q0'], 'accept ' + s['acc'], 'reject ' + s['rej'], 'input_symbols ' + ' '.join(s['Sigma']),
             'tape_symbols ' + ' '.join(s['Gamma']), 'blank ' + s['blank']]
    for p, a, q, b, d in s['delta']:
        lines.append('%s %s %s%s,%s' % (p, q, a, b, d))
    return '\n'.join(lines)


def _tm_lang(s, n, budget=1000):
    """Words of length <= n a machine spec accepts within the budget (used only to build answers that are mostly right)."""
    d = {(p, a): (q, b, m) for p, a, q, b, m in s['delta']}
    out = []
    for w in fa.words_upto(sorted(s['Sigma']), n):
        tape, q, h = list(w) + [s['blank']], s['q0'], 0
        for _ in range(budget):
            if q in (s['acc'], s['rej']):
                break
            q, b, m = d.get((q, tape[h]), (s['rej'], tape[h], 'R'))
            tape[h] = b
            h = max(h - 1, 0) if m == 'L' else h + 1
            if h == len(tape):
                tape.append(s['blank'])
        if q == s['acc']:
            out.append(w)
    return out


def render_rx(t):
    if t[0] in ('0', '1'):
        return t[0]
    if t[0] == 'sym':
        return t[1]
    if t[0] == 'star':
        return '(%s)*' % render_rx(t[1])
    if t[0] == 'sum':
        return '(%s+%s)' % (render_rx(t[1]), render_rx(t[2]))
    return '(%s%s)' % (render_rx(t[1]), render_rx(t[2]))


# ------------------------------------------------------------------ session generation

def _words(rng, sigma, k=4):
    return ''.join(rng.choice(sigma) for _ in range(rng.randint(0, k))) if sigma else ''


def _simple_dfa(rng, sigma, n_max=4):
    a = genfa.abstract_dfa(rng, 1, n_max, len(sigma), len(sigma), unreachable_max=2)
    new = names.fresh_state_names(rng, len(a['Q']), special_p=0.05, style=rng.choice(['rand', 'q', 's']))
    qm = dict(zip(a['Q'], new))
    sm = dict(zip('abc', sigma))
    s = {'kind': 'dfa', 'Q': names.shuffled(rng, [qm[q] for q in a['Q']]), 'Sigma': names.shuffled(rng, [sm[x] for x in a['Sigma']]),
         'delta': names.shuffled(rng, [[qm[q], sm[x], qm[t]] for q, x, t in a['delta']]), 'q0': qm[a['q0']], 'F': [qm[q] for q in a['F']]}
    return s


def _simple_nfa(rng, sigma, used):
    a = genfa.abstract_nfa(rng, 1, 4, len(sigma), len(sigma))
    while True:
        new = names.fresh_state_names(rng, len(a['Q']), special_p=0.04, style=rng.choice(['rand', 'rand', 'q']))
        if not (set(new) & used):
            break
    used.update(new)
    qm = dict(zip(a['Q'], new))
    sm = dict(zip('abc', sigma))
    eps = rng.choice(['_', 'ε'])
    s = {'kind': 'nfa', 'Q': names.shuffled(rng, [qm[q] for q in a['Q']]), 'Sigma': [sm[x] for x in a['Sigma']],
         'delta': [[qm[q], (eps if x == a['eps'] else sm[x]), [qm[t] for t in T]] for q, x, T in a['delta']],
         'q0': qm[a['q0']], 'F': [qm[q] for q in a['F']], 'eps': eps, 'dd': rng.random() < 0.7}
    return s


def _product_spec(s1, s2, mode):
    d1 = {(q, a): t for q, a, t in s1['delta']}
    d2 = {(q, a): t for q, a, t in s2['delta']}
    nm = lambda p, q: '(%s,%s)' % (p, q)
    Q = [nm(p, q) for p in s1['Q'] for q in s2['Q']]
    delta = [[nm(p, q), a, nm(d1[p, a], d2[q, a])] for p in s1['Q'] for q in s2['Q'] for a in s1['Sigma']]
    f1, f2 = set(s1['F']), set(s2['F'])
    test = {'union': lambda x, y: x or y, 'intersection': lambda x, y: x and y, 'symmetric_difference': lambda x, y: x != y}[mode]
    F = [nm(p, q) for p in s1['Q'] for q in s2['Q'] if test(p in f1, q in f2)]
    return {'kind': 'dfa', 'Q': Q, 'Sigma': list(s1['Sigma']), 'delta': delta, 'q0': nm(s1['q0'], s2['q0']), 'F': F}


def _perturb_dfa(rng, s):
    s = copy.deepcopy(s)
    r = rng.random()
    if r < 0.4 and s['Q']:
        q = rng.choice(s['Q'])
        if q in s['F']:
            s['F'].remove(q)
        else:
            s['F'].append(q)
    elif r < 0.8 and s['delta']:
        s['delta'][rng.randrange(len(s['delta']))][2] = rng.choice(s['Q'])
    elif s['delta']:
        del s['delta'][rng.randrange(len(s['delta']))]      # ill-formed (not total)
    return s


def _text_check(rng, made, sigma):
    """One text-level checker step built from specs known at generation time."""
    dfas = [m for m in made if m['kind'] == 'dfa' and all(q.isalnum() or '_' in q for q in m['Q'])]
    nfas = [m for m in made if m['kind'] == 'nfa']
    cfgs = [m for m in made if m['kind'] == 'cfg' and all(len(v) == 1 for v in m['V']) and m['R']]
    name = rng.choice(sorted(TEXT_CHECKS))
    wrong = rng.random() < 0.4
    t = {}
    if name in FILE_CHECKS:
        return _file_check(rng, made, sigma, name, wrong, dfas, nfas, cfgs)
    if name in NEW_TEXT_CHECKS:
        return _text_check_more(rng, made, sigma, name, wrong, dfas, nfas, cfgs)
    if name in ('check_dfa_minimal', 'check_dfa_complement', 'check_dfa_reverse', 'check_dfa_language_from_words', 'check_dfa2regexp', 'check_dfa_syntax'):
        if not dfas:
            return None
        D = rng.choice(dfas)
        t['dfa'] = render_dfa(D)
        if name == 'check_dfa_minimal':
            ans = genfa.spec_of_canon(fa.canon_of(D))
            t['answer'] = render_dfa(_perturb_dfa(rng, ans) if wrong else ans)
        elif name == 'check_dfa_complement':
            ans = copy.deepcopy(D)
            ans['F'] = [q for q in D['Q'] if q not in set(D['F'])]
            t['answer'] = render_dfa(_perturb_dfa(rng, ans) if wrong else ans)
        elif name == 'check_dfa_reverse':
            new0 = 'r0'
            rev = {'kind': 'nfa', 'Q': D['Q'] + [new0], 'Sigma': D['Sigma'], 'eps': '_', 'q0': new0, 'F': [D['q0']],
                   'delta': [[tt, a, [q]] for q, a, tt in D['delta']] + ([[new0, '_', list(D['F'])]] if D['F'] else [])}
            if wrong and rev['delta']:
                del rev['delta'][rng.randrange(len(rev['delta']))]
            t['answer'] = render_nfa(rev)
        elif name == 'check_dfa_language_from_words':
            L = sorted(fa.lang_upto(D, 3))
            if wrong and L:
                L = L[1:]
            t['words'] = ' '.join(w or 'ε' for w in L)
        elif name == 'check_dfa2regexp':
            t['answer'] = render_rx(genrx.tree(rng, rng.randint(0, 4), list(sigma)))
        elif name == 'check_dfa_syntax' and wrong:
            t['dfa'] = render_dfa(_perturb_dfa(rng, D))
    elif name in ('check_dfa_union', 'check_dfa_intersection', 'check_dfa_symmetric_difference'):
        if len(dfas) < 2:
            return None
        D1, D2 = rng.sample(dfas, 2)
        if sorted(D1['Sigma']) != sorted(D2['Sigma']):
            return None
        prod = _product_spec(D1, D2, name[len('check_dfa_'):])
        t['dfa'], t['dfa2'] = render_dfa(D1), render_dfa(D2)
        t['answer'] = render_dfa(_perturb_dfa(rng, prod) if wrong else prod)
    elif name in ('check_nfa2dfa', 'check_nfa_language_from_words', 'check_nfa_syntax'):
        if not nfas:
            return None
        N = rng.choice(nfas)
        t['nfa'] = render_nfa(N)
        if name == 'check_nfa2dfa':
            R = fa.rnfa_of(N)
            start = R.eclose({R.q0})
            idx, order, todo, delta = {start: 0}, [start], [start], []
            nm = lambda S: '{' + ','.join(sorted(N['Q'][i] for i in S)) + '}'
            while todo:
                S = todo.pop()
                for a in R.sigma:
                    T = R.step(S, a)
                    if T not in idx:
                        idx[T] = len(order)
                        order.append(T)
                        todo.append(T)
                    delta.append([nm(S), a, nm(T)])
            ans = {'kind': 'dfa', 'Q': [nm(S) for S in order], 'Sigma': list(R.sigma), 'delta': delta, 'q0': nm(start), 'F': [nm(S) for S in order if S & R.F]}
            t['answer'] = render_dfa(_perturb_dfa(rng, ans) if wrong else ans)
        elif name == 'check_nfa_language_from_words':
            L = sorted(fa.lang_upto(N, 3))
            if wrong and L:
                L = L[:-1]
            t['words'] = ' '.join(w or 'ε' for w in L)
    else:
        if not cfgs:
            return None
        G = rng.choice(cfgs)
        t['cfg'] = render_cfg(G)
        if name in ('check_cyk_matrix', 'check_cfg_derivation'):
            cnf = [g for g in cfgs if rcfg.is_cnf(g)]
            if not cnf:
                return None
            G = rng.choice(cnf)
            t['cfg'] = render_cfg(G)
            L = sorted(w for w in rcfg.lang_upto(G, 4) if w)
            if not L:
                return None
            w = rng.choice(L)
            t['word'] = w
            if name == 'check_cyk_matrix':
                X = rcfg.cyk_table(G, w)
                n = len(w)
                rows = []
                for i in range(n - 1, -1, -1):      # top line first: one entry X[0, n-1]; bottom line: the diagonal
                    rows.append(' '.join('{' + ','.join(sorted(X[j, j + i])) + '}' for j in range(n - i)))
                if wrong:
                    rows[-1] = rows[-1].replace('{', '{Z,', 1) if rng.random() < 0.5 else ' '.join(rows[-1].split()[:-1]) or '{}'
                t['answer'] = '\n'.join(rows)
            else:
                d = rcfg.leftmost_derivation(G, w)
                forms = [''.join(x[0] for x in f) for f in d]
                if wrong and len(forms) > 2:
                    del forms[rng.randrange(1, len(forms) - 1)]
                t['answer'] = ' => '.join(forms)
        elif name == 'cfg_check_chomsky':
            t['phase'] = rng.randint(0, 5)
            t['answer'] = render_cfg(G)       # the unconverted grammar as "answer": right language, wrong form for phase >= 1
        else:
            L = sorted(rcfg.lang_upto(G, 3))
            allw = fa.words_upto(sorted(G['Sigma']), 3)
            acc = rng.sample(L, min(2, len(L))) if L else []
            rej = [w for w in allw if w not in set(L)][:2]
            if wrong:
                acc, rej = rej, acc
            t['acc'] = ' '.join(w or 'ε' for w in acc) or 'ε'
            t['rej'] = ' '.join(w or 'ε' for w in rej) or 'zzz'
    return {'op': 'text_check', 'name': name, 'texts': t}


def _file_check(rng, made, sigma, name, wrong, dfas, nfas, cfgs):
    """The student's answer is a text, the reference answer a file of another (or the same) formalism; a wrong answer is
    a perturbed / unrelated object."""
    rxs = [m for m in made if m['kind'] == 'regexp' and rrx.size(m['tree']) <= 30]
    t = {}
    if 'dfa' in name or 'nfa' in name or 'regexp' in name:
        if not dfas:
            return None
        D = rng.choice(dfas)
        other = _perturb_dfa(rng, D) if wrong else D
        if len(other['delta']) != len(D['delta']):
            other = D
        ext = rng.choice(['dfa', 'dfa', 'nfa'])
        t['answer_ext'] = ext
        if ext == 'dfa':
            t['answer_text'] = render_dfa(other)
        else:
            t['answer_text'] = render_nfa({'Q': other['Q'], 'Sigma': other['Sigma'], 'q0': other['q0'], 'F': other['F'], 'eps': '_',
                                           'delta': [[q, a, [tt]] for q, a, tt in other['delta']]})
        if 'dfa' in name:
            t['dfa'] = render_dfa(D)
        elif 'nfa' in name:
            t['nfa'] = render_nfa({'Q': D['Q'], 'Sigma': D['Sigma'], 'q0': D['q0'], 'F': D['F'], 'eps': '_', 'delta': [[q, a, [tt]] for q, a, tt in D['delta']]})
        else:
            if not rxs:
                return None
            t['regexp'] = render_rx(rng.choice(rxs)['tree'])
    else:
        if not cfgs:
            return None
        G = rng.choice(cfgs)
        H = rng.choice(cfgs) if wrong else G
        t['cfg'] = render_cfg(G)
        t['answer_ext'] = 'cfg'
        t['answer_text'] = render_cfg(H)
    return {'op': 'text_check', 'name': name, 'texts': t}


NEW_TEXT_CHECKS = {'check_pda_language_from_words', 'check_tm_language_from_words', 'check_cfg_language_from_words', 'check_regexp_language_from_words',
                   'check_dfa_accepts_rejects', 'check_cfg_accepts', 'check_cfg_rejects', 'check_number_of_nfa_states', 'check_pda_syntax', 'check_tm_syntax',
                   'dfa_language', 'nfa_language', 'pda_language', 'tm_language', 'cfg_language', 'regexp_language', 'nfa_accepts', 'regexp_accepts'}


def _wordlist(L, wrong, rng):
    L = sorted(L)
    if wrong and L:
        del L[rng.randrange(len(L))]
    elif wrong:
        L = ['zz']
    return ' '.join(w or rng.choice(['ε', '_']) for w in L)


def _text_check_more(rng, made, sigma, name, wrong, dfas, nfas, cfgs):
    t = {'n': rng.randint(0, 4), 'max_states': rng.choice([0, 0, 2, 9])}
    pdas = [m for m in made if m['kind'] == 'pda' and len(m['eps']) == 1 and all(len(x) == 1 for x in m['Gamma'] + m['Sigma']) and len(m['Q']) <= 8
            and all(q.isalnum() for q in m['Q']) and rpda.closure_sizes(m, '', 200)[1]]     # the large-closure families are exercised at object level
    tms = [m for m in made if m['kind'] == 'tm' and all(q.isalnum() for q in m['Q'])]
    rxs = [m for m in made if m['kind'] == 'regexp' and rrx.size(m['tree']) <= 30]
    if 'pda' in name:
        if not pdas:
            return None
        P = rng.choice(pdas)
        t['pda'] = render_pda(P)
        if name == 'check_pda_syntax' and wrong:
            t['pda'] = t['pda'].replace('initial ', 'initial zz', 1)
        if name == 'check_pda_language_from_words':
            try:
                L = [w for w in fa.words_upto(sorted(P['Sigma']), 1) if rpda.accepts(P, w)]
            except Exception:
                L = []
            t['words'] = _wordlist(L, wrong, rng)
    elif 'tm' in name:
        if not tms:
            return None
        T = rng.choice(tms)
        t['tm'] = render_tm(T)
        if name == 'check_tm_syntax' and wrong:
            t['tm'] = t['tm'].replace('accept ', 'accept zz', 1)
        if name == 'check_tm_language_from_words':
            t['words'] = _wordlist(_tm_lang(T, 2), wrong, rng)
    elif 'regexp' in name:
        if not rxs:
            return None
        R = rng.choice(rxs)
        t['regexp'] = render_rx(R['tree'])
        t['word'] = _words(rng, sigma)
        if name == 'check_regexp_language_from_words':
            L = [w for w in fa.words_upto(sorted(sigma), 3) if rrx.matches(R['tree'], w)]
            t['words'] = _wordlist(L, wrong, rng)
    elif 'cfg' in name:
        if not cfgs:
            return None
        G = rng.choice(cfgs)
        t['cfg'] = render_cfg(G)
        L = sorted(rcfg.lang_upto(G, 3))
        if name == 'check_cfg_language_from_words':
            t['words'] = _wordlist(L, wrong, rng)
        else:
            rej = [w for w in fa.words_upto(sorted(G['Sigma']), 3) if w not in set(L)]
            acc, rej = L[:3], rej[:3]
            if wrong:
                acc, rej = acc + rej[:1], rej + L[:1]
            t['acc'] = ' '.join(w or 'ε' for w in acc) or 'ε'
            t['rej'] = ' '.join(w or 'ε' for w in rej) or 'zzz'
    elif 'nfa' in name:
        if not nfas:
            return None
        N = rng.choice(nfas)
        t['nfa'] = render_nfa(N)
        t['word'] = _words(rng, sigma)
        t['count'] = len(N['Q']) + (1 if wrong else 0)
    else:
        if not dfas:
            return None
        D = rng.choice(dfas)
        t['dfa'] = render_dfa(D)
        L = sorted(fa.lang_upto(D, 3))
        rej = [w for w in fa.words_upto(sorted(D['Sigma']), 3) if w not in set(L)]
        acc, rej = L[:3], rej[:3]
        if wrong:
            acc, rej = acc + rej[:1], rej + L[:1]
        t['acc'] = ' '.join(w or 'ε' for w in acc) or 'ε'
        t['rej'] = ' '.join(w or 'ε' for w in rej) or 'zzz'
    return {'op': 'text_check', 'name': name, 'texts': t}


def gen_session(rng, n_calls):
    k = rng.randint(1, 2)
    sigma = rng.sample('abcdefghijklmnopqrstuvwxyz', k)
    if rng.random() < 0.25:
        sigma = rng.sample(['0', '1'], k)        # the letters 0 and 1 are also the constants of the regexp syntax
    letters = [c if c.isalpha() else 'pq'[i] for i, c in enumerate(sigma)]   # grammars need lower-case terminals
    steps = []
    kinds = {}
    used = set()
    made = []

    def make(spec):
        i = len(kinds)
        kinds[i] = spec['kind']
        steps.append({'op': 'make', 'id': i, 'spec': spec})
        made.append(spec)

    for _ in range(rng.randint(2, 3)):
        make(_simple_dfa(rng, sigma))
    for _ in range(rng.randint(2, 3)):
        make(_simple_nfa(rng, sigma, used))
    for _ in range(rng.randint(1, 2)):
        r0 = rng.random()
        if r0 < 0.3:
            a = genpda.needle_pda(rng)
        elif r0 < 0.4:
            a = genpda.big_closure_pda(rng, depth=rng.choice([9, 10]), needle=True)     # 1534 / 3070 configurations: beyond the default limit
        else:
            a = genpda.abstract_pda(rng, nmax=3, tmax=5)
        s, _r = genfa.rename(a, rng, eps_choices=('_', 'ε'))
        s['dd'] = rng.random() < 0.7        # else a plain dict that has only the keys of the transitions
        m = dict(zip(sorted(s['Sigma']), sigma + [c for c in 'uvw' if c not in sigma]))
        # keep the session alphabet: map input symbols onto sigma (cyclically)
        inv = {x: sigma[i % len(sigma)] for i, x in enumerate(sorted(s['Sigma']))}
        gam = {x: 'XYZ'[i] for i, x in enumerate(sorted(s['Gamma']))}
        e = s['eps']
        s['Sigma'] = sorted(set(inv.values()))
        s['Gamma'] = sorted(gam.values())
        merged = {}
        for p, a_, u, T in s['delta']:
            key = (p, e if a_ == e else inv[a_], e if u == e else gam[u])
            merged.setdefault(key, [])
            for q, v in T:
                item = [q, e if v == e else gam[v]]
                if item not in merged[key]:
                    merged[key].append(item)
        s['delta'] = [[p, a_, u, T] for (p, a_, u), T in merged.items()]
        make(s)
    special_tm = None
    r0 = rng.random()
    if r0 < 0.45:
        s, _r = gentm.rename(gentm.abstract_tm(rng, nmax=3), rng)
        make(s)
    elif r0 < 0.6:
        s, _r = gentm.rename(gentm.scanner_tm(rng), rng)      # read-only, right-moving, still working on the blanks after the input
        make(s)
        special_tm = len(kinds) - 1
    elif r0 < 0.8:
        # words of one length of which one is given up (runs for ever) and one is accepted after most of the step budget
        s, _r = gentm.rename(gentm.slow_or_loop_tm(rng, budget=rng.choice([100, 100, 1000])), rng)
        make(s)
        special_tm = len(kinds) - 1
    for i in range(rng.randint(2, 3)):
        a = gencfg.abstract_cnf(rng, 1, 3, k) if i == 0 else gencfg.abstract_cfg(rng, 1, 4, k)
        s, _r = gencfg.rename(a, rng)
        tm = dict(zip(sorted(set(s['Sigma']) | {x[0] for _, rhs in s['R'] for x in rhs if x[1] == 'T'}), letters + list('xyz')))
        s['Sigma'] = [tm[t] for t in s['Sigma']]
        s['R'] = [[A, [[tm[x[0]], 'T'] if x[1] == 'T' else x for x in rhs]] for A, rhs in s['R']]
        make(s)
    for _ in range(rng.randint(1, 2)):
        make({'kind': 'regexp', 'tree': genrx.tree(rng, rng.randint(0, 6), list(sigma))})
    # an expression with constants under stars and in sums / products: simplification has work to do at every level
    make({'kind': 'regexp', 'tree': ['star', genrx.tree(rng, rng.randint(1, 4), list(sigma), leaf_weights=(30, 30, 40))]})
    for _ in range(rng.randint(1, 2)):
        make({'kind': 'words', 'words': sorted({_words(rng, sigma, 5) for _ in range(rng.randint(0, 6))})})
    if rng.random() < 0.6:
        # legal but unusual: an alphabet that is not uniquely decodable ({x, y, xy} or {x, xx})
        if len(sigma) == 2:
            d3 = _simple_dfa(rng, [sigma[0], sigma[1], 'c'], n_max=4)
            ren = {'c': sigma[0] + sigma[1]}
        else:
            d3 = _simple_dfa(rng, [sigma[0], 'c'], n_max=4)
            ren = {'c': sigma[0] * 2}
        d3['Sigma'] = [ren.get(x, x) for x in d3['Sigma']]
        d3['delta'] = [[q, ren.get(x, x), t] for q, x, t in d3['delta']]
        make(d3)
        special_dfa = len(kinds) - 1
    else:
        special_dfa = None
    for spec in list(made):
        if spec['kind'] in ('dfa', 'nfa', 'pda', 'cfg', 'regexp') and rng.random() < (0.6 if spec['kind'] == 'regexp' else 0.25):
            tw = edits.twin(rng, spec)      # differs in one component only: q0, F or the start variable
            if tw:
                make(tw)
    for spec in made:
        if spec['kind'] in ('nfa', 'pda') and rng.random() < 0.2:
            spec['alias'] = True
    # operations whose result is computed by iterating sets get three times the weight of simple accessors
    heavy = ('dfa_minimize', 'dfa_quotient', 'dfa_hopfcroft', 'dfa_to_regexp', 'nfa_to_dfa', 'regexp_to_nfa', 'cfg_to_chomsky',
             'cfg_eliminate_unit_rules', 'cfg_make_rules_of_length_two', 'cfg_eliminate_terminals', 'cfg_remove_epsilon_rules', 'cfg_apply_chomsky',
             'dfa_no_extend', 'dfa_no_prefix', 'dfa_reverse', 'dfa_remove_unreachable_states', 'dfa_union', 'dfa_intersection',
             'pda_accepts_word', 'pda_words_up_to_n', 'pda_to_cfg', 'pda_to_push_pop', 'nfa_union', 'nfa_concatenation', 'nfa_repetition',
             'dfa_words_up_to_n', 'nfa_words_up_to_n', 'cfg_words_up_to_n', 'regexp_words_up_to_n', 'dfa_isomorphic1')
    names_by_args = sorted(OPS) + [n for n in sorted(OPS) if n in heavy] * 2
    if special_dfa is not None:
        # make sure the unusual object is actually enumerated
        steps.append({'op': 'dfa_words_up_to_n', 'args': [special_dfa], 'params': {'n': rng.randint(4, 5)}})   # two sequences of 3 symbols spell the same word
        steps.append({'op': 'generate_language_dfa', 'args': [special_dfa], 'params': {'n': 2}})
    if special_tm is not None:
        steps.append({'op': 'tm_words_up_to_n', 'args': [special_tm], 'params': {'n': rng.randint(1, 3)}})
        steps.append({'op': 'generate_language_tm', 'args': [special_tm], 'params': {'n': rng.randint(1, 2)}})
    while sum(1 for s in steps if s['op'] not in ('make', 'edit')) < n_calls:
        if rng.random() < 0.05:
            # object-lifetime history: a made object is edited in place (by hand or by an *_in_place library function)
            cands = [st for st in steps if st['op'] == 'make' and st['spec']['kind'] in ('dfa', 'nfa', 'pda', 'cfg')]
            if cands:
                st = rng.choice(cands)
                e = edits.propose(rng, st['spec'])
                if e:
                    steps.append({'op': 'edit', 'args': [st['id']], 'edit': e})
            continue
        if rng.random() < 0.2:
            tc = _text_check(rng, made, sigma)
            if tc:
                steps.append(tc)
            continue
        name = rng.choice(names_by_args)
        o = OPS[name]
        args = []
        ok = True
        for kd in o.args:
            cands = [i for i, kk in kinds.items() if kk == kd]
            if not cands:
                ok = False
                break
            # prefer recent objects a little so that results get used as operands
            args.append(cands[-1] if rng.random() < 0.25 else rng.choice(cands))
        if not ok:
            continue
        if len(args) == 2 and args[0] == args[1] and name.startswith('nfa_'):
            continue
        params = {}
        for p in o.params:
            params[p] = rng.randint(0, 4) if p == 'n' else _words(rng, sigma)
        st = {'op': name, 'args': args, 'params': params}
        if o.out:
            st['id'] = len(kinds)
            kinds[st['id']] = o.out
        steps.append(st)
    call_idx = [i for i, s in enumerate(steps) if s['op'] not in ('make', 'edit')]
    solo = set(rng.sample(call_idx, max(1, len(call_idx) // 3)))
    solo |= {i for i, s in enumerate(steps) if s['op'] == 'text_check'}     # checkers are cheap: every one is re-executed alone
    solo = sorted(solo)
    return {'sigma': sigma, 'steps': steps, 'solo': solo}


def gen_cases(rng, tier, rnd):
    n, calls = {'quick': (14, 36), 'thorough': (60, 60), 'selftest': (4, 20)}[tier]
    out = []
    for _ in range(n):
        s = gen_session(rng, calls)
        s['abs'] = hx(s['steps'])
        out.append(s)
    return out


# ------------------------------------------------------------------ execution (inside the forked child)

def _ambient():
    """Everything a later call could depend on that is not an argument: the two library knobs and the interpreter-wide
    settings a library call has no business leaving changed (recursion limit, working directory, module search path,
    warning filters, environment, the object installed as sys.stdout)."""
    import os
    import warnings
    from gambatools.global_settings import GambaTools
    return [GambaTools.pda_epsilon_closure_max_iterations, GambaTools.enable_logging, sys.getrecursionlimit(), os.getcwd(),
            hx(list(sys.path)), len(warnings.filters), hx(sorted(os.environ.items())), sys.getswitchinterval()]


def _restore(k):
    import os
    from gambatools.global_settings import GambaTools
    GambaTools.pda_epsilon_closure_max_iterations, GambaTools.enable_logging = k[0], k[1]
    sys.setrecursionlimit(k[2])
    try:
        os.chdir(k[3])
    except OSError:
        pass


def _size_ok(o):
    Q = getattr(o, 'Q', None)
    if Q is not None and len(Q) > (1200 if kind_of(o) == 'tm' else MAX_STATES):     # a machine that idles for most of the step budget has that many states
        return False
    R = getattr(o, 'R', None)
    if R is not None and len(R) > 300:
        return False
    return True


def _run_call(env, o, args, params, ctx):
    """Executes one registry operation; returns the outcome digest string and the raw status/value."""
    buf = io.StringIO()
    old = sys.stdout
    sys.stdout = buf
    try:
        pv = [params[p] for p in o.params]
        st, val, ticks = call(env, o.fn, *args, *pv, budget=BUDGET)
    finally:
        ctx['stdout_replaced'] = sys.stdout is not buf
        sys.stdout = old
    ctx['stdout'] = buf.getvalue()
    if st == 'timeout':
        return 'timeout', st, None, ticks
    if st == 'exc':
        if o.digest in (d_feedback, d_verdict):
            # the public checkers catch every Exception and print 'Error: ...': for a verdict an exception IS "not OK"
            return 'not-OK', st, None, ticks
        return 'exc:' + val.split(':')[0], st, None, ticks
    try:
        d = o.digest(val, ctx)
    except RecursionError:
        d = 'digest-recursion'
    except Exception as e:
        d = 'digest-failed:%s' % type(e).__name__
    return d, st, val, ticks


def run_case(case, env):
    if case.get('mode') == 'solo':
        return run_solo(case, env)
    set_knobs(logging=bool(case.get('logging')))
    out = {'viol': [], 'evals': 0, 'ticks': 0, 'probes': {}, 'hist': {}, 'steps': [], 'argsigs': [], 'solo_inputs': {}, 'notes': {}}
    pool = {}
    ctx = {'sigma': case['sigma'], 'stdout': ''}
    used_before = set()
    solo = set(case.get('solo', ()))
    nontrivial = 0
    for idx, step in enumerate(case['steps']):
        name = step['op']
        if name == 'make':
            try:
                pool[step['id']] = build(step['spec'])
            except Exception as e:
                return {'harness_error': 'cannot build %s: %r' % (step['spec'], e)}
            out['steps'].append('make')
            out['argsigs'].append('')
            continue
        if name == 'edit':
            tgt = step['args'][0]
            d = 'edit:absent'
            if tgt in pool:
                set_knobs(logging=False)
                try:
                    edits.apply(pool[tgt], step['edit'])
                    d = 'edit'
                except RecursionError:
                    d = 'edit:exc:RecursionError'
                except Exception as e:
                    d = 'edit:exc:' + type(e).__name__
                set_knobs(logging=bool(case.get('logging')))
                out['probes']['inplace_edit_between_calls'] = 1
            out['steps'].append(d)
            out['argsigs'].append('')
            continue
        before = {k: snapshot(v) for k, v in pool.items()}
        if name == 'text_check':
            buf = io.StringIO()
            old = sys.stdout
            knobs_before = _ambient()
            sys.stdout = buf
            try:
                st, val, ticks = call(env, TEXT_CHECKS[step['name']], step['texts'], budget=BUDGET)
            finally:
                stdout_replaced = sys.stdout is not buf
                sys.stdout = old
            ctx['stdout'] = buf.getvalue()
            d = _text_digest(step['name'], st, val, ctx)
            site = step['name']
            if _ambient() != knobs_before or knobs_before[:2] != [1000, bool(case.get('logging'))]:
                out['viol'].append(viol('ambient-setting-changed', site, {'step': idx, 'before': knobs_before, 'after': _ambient()}))
                _restore([1000, bool(case.get('logging'))] + knobs_before[2:])
            if stdout_replaced:
                out['viol'].append(viol('ambient-setting-changed', site, {'step': idx, 'what': 'sys.stdout was replaced and not put back'}))
            if idx in solo:
                out['solo_inputs'][str(idx)] = {'op': 'text_check', 'name': step['name'], 'texts': step['texts'], 'args': [], 'params': {}, 'sigma': case['sigma']}
            out['hist']['verdict_' + d.split(':')[0]] = out['hist'].get('verdict_' + d.split(':')[0], 0) + 1
            ops = []
        else:
            o = OPS[name]
            site = name
            ops = step['args']
            if any(a not in pool for a in ops):
                out['steps'].append('skip:missing')
                out['argsigs'].append('')
                continue
            args = [pool[a] for a in ops]
            if not all(_size_ok(a) for a in args):
                out['steps'].append('skip:size')
                out['argsigs'].append('')
                continue
            if o.pre is not None:
                try:
                    pre_ok = bool(o.pre(*args))
                except Exception:
                    pre_ok = False
                if not pre_ok:
                    out['steps'].append('skip:pre')
                    out['argsigs'].append('')
                    continue
            if name in ('nfa_union', 'nfa_concatenation') and (not args[0].Q.isdisjoint(args[1].Q) or args[0].epsilon != args[1].epsilon):
                out['steps'].append('skip:pre')
                out['argsigs'].append('')
                continue
            if name.startswith('dfa_') and len(args) == 2 and args[0].Sigma != args[1].Sigma:
                out['steps'].append('skip:pre')
                out['argsigs'].append('')
                continue
            if idx in solo:
                out['solo_inputs'][str(idx)] = {'op': name, 'args': [{**before[a], **rebuild_hints(pool[a])} for a in ops], 'params': step['params'], 'sigma': case['sigma']}
            if 'pda' in o.args:
                # evidence for the known-finding predicate: did some epsilon-closure of this call exceed the limit?
                ws = [step['params']['w']] if 'w' in step['params'] else fa.words_upto(sorted(before[ops[0]]['Sigma']), min(step['params'].get('n', 0), 2))
                if any(not rpda.closure_sizes(before[ops[0]], w, 1000)[1] for w in ws):
                    out['notes'][str(idx)] = ['closure-truncated']
                    out['probes']['pda_call_with_truncated_closure'] = 1
            knobs_before = _ambient()
            d, st, val, ticks = _run_call(env, o, args, step['params'], ctx)
            if name == 'check_nfa_to_dfa_answer_twice' and st == 'ok' and isinstance(val, list) and len(val) == 2 and val[0] != val[1]:
                out['viol'].append(viol('repeated-call-differs', 'check_nfa_to_dfa_answer', {'step': idx, 'first_not_ok': val[0], 'second_not_ok': val[1]}))
            if _ambient() != knobs_before:
                out['viol'].append(viol('ambient-setting-changed', site, {'step': idx, 'before': knobs_before, 'after': _ambient()}))
                _restore(knobs_before)
            if ctx.get('stdout_replaced'):
                out['viol'].append(viol('ambient-setting-changed', site, {'step': idx, 'what': 'sys.stdout was replaced and not put back'}))
            if idx in solo and d not in ('timeout',) and not d.startswith('exc:RecursionError'):
                # shortest possible history: the very same call again, same objects, same process
                reps = 9 if idx % 5 == 0 and ticks < 200_000 else 1      # now and then a longer history of the same call
                for rep in range(reps):
                    d2, st2, val2, ticks2 = _run_call(env, o, args, step['params'], ctx)
                    ticks += ticks2
                    out['probes']['repeated_calls'] = out['probes'].get('repeated_calls', 0) + 1
                    if d2 != d and d2 != 'timeout':
                        out['viol'].append(viol('repeated-call-differs', site, {'step': idx, 'first': d, 'repetition': rep + 2, 'then': d2}))
                        break
            if st == 'ok' and 'id' in step and val is not None and _size_ok(val):
                pool[step['id']] = val
            if any(a in used_before for a in ops) or any('spec' not in case['steps'][_index_of(case, a)] for a in ops):
                nontrivial += 1
            used_before.update(ops)
        out['evals'] += 1
        out['ticks'] += ticks
        out['hist']['op_' + site] = out['hist'].get('op_' + site, 0) + 1
        out['hist']['kticks_' + site] = out['hist'].get('kticks_' + site, 0) + ticks // 1000
        if d == 'timeout':
            out['probes']['tick_budget_exceeded'] = 1
        # argument integrity: every pool object other than the step's own result is unchanged
        for k, v in pool.items():
            if k in before:
                try:
                    after = snapshot(v)
                except Exception as e:
                    after = {'unsnapshotable': repr(e)}
                if after != before[k]:
                    out['viol'].append(viol('operand-mutated' if k in ops else 'bystander-mutated', site,
                                            {'step': idx, 'object': k, 'before': before[k], 'after': after}))
        out['steps'].append(d)
        out['argsigs'].append(hx([before[a] for a in ops]))
    set_knobs(logging=False)
    if nontrivial:
        out['nontrivial_keys'] = [case['abs'] + ':%d' % i for i in range(min(nontrivial, 200))]
        out['probes']['nontrivial_steps'] = nontrivial
    out['scheds'] = [hx([case['abs'], env.hashseed, bool(case.get('logging'))])]
    out['digest'] = hx(out['steps'])
    return out


def _index_of(case, oid):
    for i, s in enumerate(case['steps']):
        if s.get('id') == oid:
            return i
    return 0


def run_solo(case, env):
    """One step on equal arguments rebuilt from snapshots, in a pristine process: history independence."""
    ctx = {'sigma': case['sigma'], 'stdout': ''}
    if case['op'] == 'text_check':
        buf = io.StringIO()
        old = sys.stdout
        sys.stdout = buf
        try:
            st, val, ticks = call(env, TEXT_CHECKS[case['name']], case['texts'], budget=BUDGET)
        finally:
            sys.stdout = old
        ctx['stdout'] = buf.getvalue()
        d = _text_digest(case['name'], st, val, ctx)
        return {'digest': d, 'ticks': ticks, 'viol': [], 'evals': 1}
    o = OPS[case['op']]
    try:
        args = [build(s) for s in case['args']]
    except Exception:
        # the in-session operand is an object the constructors refuse (e.g. an invalid grammar returned by an
        # earlier step): "equal arguments" cannot be rebuilt, so there is nothing to compare
        return {'digest': 'solo-unbuildable', 'ticks': 0, 'viol': [], 'evals': 0}
    d, st, val, ticks = _run_call(env, o, args, case['params'], ctx)
    return {'digest': d, 'ticks': ticks, 'viol': [], 'evals': 1}


def run_in_zygote(case, hashseed, fork_run):
    """Called in the zygote: the session in one pristine fork, then every sampled step again, alone, in another."""
    res = fork_run(case)
    if 'harness_error' in res or 'harness_timeout' in res or case.get('mode') == 'solo':
        return res
    for idx, inp in sorted(res.get('solo_inputs', {}).items(), key=lambda kv: int(kv[0])):
        r2 = fork_run({'mode': 'solo', **inp})
        if 'harness_error' in r2 or 'harness_timeout' in r2:
            return r2
        res['evals'] = res.get('evals', 0) + 1
        res['ticks'] = res.get('ticks', 0) + r2.get('ticks', 0)
        res.setdefault('probes', {})['solo_reexecutions'] = res.get('probes', {}).get('solo_reexecutions', 0) + 1
        if r2['digest'] not in ('solo-unbuildable', 'timeout') and res['steps'][int(idx)] != 'timeout' and r2['digest'] != res['steps'][int(idx)]:
            res['viol'].append(viol('history-dependent-result', inp.get('name') or inp['op'],
                                    {'step': int(idx), 'in_session': res['steps'][int(idx)], 'alone': r2['digest'], 'args': inp['args'], 'params': inp['params']}))
    res.pop('solo_inputs', None)
    return res


# ------------------------------------------------------------------ shrinking (steps only; used by sim/bundle.py too)

def drop_step(case, idx):
    steps = case['steps']
    dead_ids = set()
    if 'id' in steps[idx]:
        dead_ids.add(steps[idx]['id'])
    new = []
    remap = {}
    for i, s in enumerate(steps):
        if i == idx or any(a in dead_ids for a in s.get('args', ())):
            if 'id' in s:
                dead_ids.add(s['id'])
            continue
        remap[i] = len(new)
        new.append(s)
    c = copy.deepcopy(case)
    c['steps'] = copy.deepcopy(new)
    c['solo'] = sorted(remap[i] for i in case.get('solo', ()) if i in remap)
    return c


def shrink(case):
    n = len(case['steps'])
    # halves first, then single steps from the end
    for lo, hi in ((n // 2, n), (0, n // 2)):
        c = case
        for i in range(hi - 1, lo - 1, -1):
            if i < len(c['steps']) and c['steps'][i]['op'] != 'make':
                c = drop_step(c, i)
        if len(c['steps']) < n:
            yield c
    for i in range(n - 1, -1, -1):
        yield drop_step(case, i)


def sample(case, res):
    return {'sigma': case['sigma'], 'n_steps': len(case['steps']),
            'first_steps': [(s if s['op'] != 'make' else {'op': 'make', 'id': s['id'], 'kind': s['spec']['kind']}) for s in case['steps'][:14]],
            'outcomes': res.get('steps', [])[:14]}
