"""C02 — bounded enumeration is exact for all six kinds and through generate_language.
Dimensions: configuration (closure limit as ambient state, TM step budget, n incl. 0 and 1), schedule (PDA truncation order).
Oracle = the statement itself: brute force over Sigma^<=n through the library's OWN acceptance test under the same knobs."""
import copy

from props.common import call, viol, hx, set_knobs
from sim.objects import build, snapshot, order_fingerprint
from ref import fa, pda as rpda, regexp as rrx
from gen import fa as genfa, pda as genpda, cfg as gencfg, regexp as genrx, tm as gentm, edits
import gambatools.dfa_algorithms as da
import gambatools.nfa_algorithms as na
import gambatools.pda_algorithms as pa
import gambatools.tm_algorithms as ta
import gambatools.cfg_algorithms as ca
import gambatools.regexp_algorithms as ra
import gambatools.language_generator as lg

ID = 'C02'
NS = [0, 0, 1, 1, 2, 3, 4, 5]


def gen_cases(rng, tier, rnd):
    n = {'quick': 240, 'thorough': 1200, 'selftest': 50}[tier]
    cases = []
    while len(cases) < n:
        kind = rng.choice(['dfa', 'nfa', 'pda', 'pda', 'tm', 'cfg', 'cfg', 'regexp'])
        c = {'kind': kind}
        if kind == 'dfa':
            a = genfa.abstract_dfa(rng, 1, 5, 0, 3, unreachable_max=1)
            c['spec'], c['rank'] = genfa.rename(a, rng)
            c['steps'] = [{'n': rng.choice(NS)} for _ in range(3)]
        elif kind == 'nfa':
            a = genfa.abstract_nfa(rng, 1, 5, 0, 2)
            c['spec'], c['rank'] = genfa.rename(a, rng)
            c['spec']['dd'] = rng.random() < 0.7
            c['steps'] = [{'n': rng.choice(NS)} for _ in range(3)]
        elif kind == 'pda' and rng.random() < 0.04:
            a = genpda.big_closure_pda(rng, depth=rng.choice([9, 10]))
            c['spec'], c['rank'] = genfa.rename(a, rng)
            m = max(rpda.closure_sizes(c['spec'], '', 6000)[0])
            c['steps'] = [{'n': rng.choice([0, 1]), 'limit': rng.choice([m + 5, 3000, 5000, m - 1, 1000])} for _ in range(2)]
            c['abs'] = hx(a)
            cases.append(c)
            continue
        elif kind == 'pda':
            a = {**genpda.ambiguous_stack_pda(rng), 'keep_gamma': True} if rng.random() < 0.08 else genpda.abstract_pda(rng)
            c['spec'], c['rank'] = genfa.rename(a, rng)
            c['spec']['dd'] = rng.random() < 0.7        # else a plain dict that has only the keys of the transitions
            steps = []
            for _ in range(3):
                nn = rng.choice([0, 0, 1, 1, 2, 3, 4])
                # cost of the enumeration is ~ limit^2 when closures are unbounded: keep such sessions small
                probe = [rpda.closure_sizes(c['spec'], w, 60) for w in fa.words_upto(sorted(c['spec']['Sigma']), min(nn, 3))]
                finite = all(p[1] for p in probe)
                m = max(max(p[0]) for p in probe)
                if finite:
                    L = rng.choice([0, 1, 2, 3, 5, 8, 20, 100, 1000, max(0, m - 1), m, m + 1, m + 5])
                else:
                    # unbounded closures: the enumeration visits up to (2*limit+1)^n configurations; keep that below ~150 (625 configurations cost 6.7 M ticks, measured)
                    nn = min(nn, 4)
                    L = rng.choice({0: [0, 1, 2, 3, 5, 8, 12, 20], 1: [0, 1, 2, 3, 5, 8, 12, 20], 2: [0, 1, 2, 3, 5],
                                    3: [0, 1, 2], 4: [0, 1]}[nn])
                steps.append({'n': nn, 'limit': L})
            c['steps'] = steps
        elif kind == 'tm' and rng.random() < 0.08:
            a = gentm.slow_tm(rng)              # verdicts decided after hundreds of steps, within the default budget
            c['spec'], c['rank'] = gentm.rename(a, rng)
            c['steps'] = [{'n': rng.choice([0, 1, 1, 2]), 'max_steps': rng.choice([1000, 1000, 300, 600])} for _ in range(2)]
        elif kind == 'tm' and rng.random() < 0.15:
            a = gentm.scanner_tm(rng)           # read-only, right-moving; keeps working on the blank cells after its input
            c['spec'], c['rank'] = gentm.rename(a, rng)
            c['steps'] = [{'n': rng.choice([0, 1, 2, 3]), 'max_steps': rng.choice([1000, 1000, 20, 5, 3])} for _ in range(3)]
        elif kind == 'tm' and rng.random() < 0.1:
            # words of one length of which one runs for ever and another is accepted after most of the step budget
            b = rng.choice([1000, 1000, 300, 100])
            a = gentm.slow_or_loop_tm(rng, budget=b)
            c['spec'], c['rank'] = gentm.rename(a, rng)
            c['steps'] = [{'n': rng.choice([1, 1, 2]), 'max_steps': b} for _ in range(2)]
        elif kind == 'tm':
            a = gentm.abstract_tm(rng)
            c['spec'], c['rank'] = gentm.rename(a, rng)
            c['steps'] = [{'n': rng.choice([0, 0, 1, 1, 2, 3, 4]), 'max_steps': rng.choice([0, 1, 2, 5, 20, 1000])} for _ in range(3)]
        elif kind == 'cfg' and rng.random() < 0.12:
            a = gencfg.cnf_shaped_cfg(rng)      # looks like CNF rule by rule, is not CNF
            c['spec'], c['rank'] = gencfg.rename(a, rng)
            c['steps'] = [{'n': rng.choice([0, 1, 2, 3, 4])} for _ in range(3)]
        elif kind == 'cfg' and rng.random() < 0.08:
            a = gencfg.wide_cfg(rng)           # the Chomsky normal form needs more than 26 variables
            c['spec'], c['rank'] = gencfg.rename(a, rng)
            c['steps'] = [{'n': rng.choice([0, 1, 2, 3])} for _ in range(2)]
        elif kind == 'cfg':
            a = gencfg.abstract_cfg(rng, 1, 4, 2, feats={'maxlen': rng.choice([2, 3])})
            c['spec'], c['rank'] = gencfg.rename(a, rng)
            c['steps'] = [{'n': rng.choice([0, 0, 1, 1, 2, 3, 4])} for _ in range(3)]
        else:
            k = rng.randint(1, 3)
            t = genrx.tree(rng, rng.randint(0, 8), list('abc'[:k]))
            m = dict(zip('abc', rng.sample(list('abcdefghijklmnopqrstuvwxyz') + ['0', '1'] * 8, 3) if rng.random() < 0.5 else rng.sample('abcdefghijklmnopqrstuvwxyz', 3)))
            if len(set(m.values())) < 3:
                continue
            a = t
            c['spec'] = {'kind': 'regexp', 'tree': genrx.rename_tree(t, m)}
            c['rank'] = {}
            c['steps'] = [{'n': rng.choice(NS)} for _ in range(3)]
        c['abs'] = hx(a)
        if kind in ('dfa', 'nfa', 'cfg') and rng.random() < 0.3:
            # object-lifetime history: enumerate, edit the live object in place, enumerate again
            c['steps'].insert(rng.randint(1, len(c['steps'])), {'edit': edits.propose(rng, c['spec'])})
        cases.append(c)
    return cases


class ClosureSpy:
    """Wraps the module global pda_algorithms.pda_epsilon_closure for observation only.  A returned set that is not
    closed under epsilon moves is a *truncation*; it is legitimate only when the exact closure of the argument has
    more configurations than the configured limit (decided by the reference with a capped search)."""

    def __init__(self, snap, limit):
        self.snap = snap
        self.limit = limit
        self.truncated = False
        self.early = None       # a truncation although the exact closure fits under the limit
        self.calls = 0
        self.orig = pa.pda_epsilon_closure
        self.moves = rpda._moves(snap)

    def __enter__(self):
        def spy(P, R):
            R = list(R)
            res = self.orig(P, R)
            self.calls += 1
            if self.early is None:
                try:
                    confs = [(str(r.q), tuple(str(x) for x in r.stack)) for r in res]
                    if not rpda.is_eps_closed(self.snap, confs):
                        self.truncated = True
                        start = {(str(r.q), tuple(str(x) for x in r.stack)) for r in R}
                        exact, complete = rpda.closure_capped(self.moves, start, self.limit)
                        if complete:
                            self.early = {'closure_size': len(exact), 'limit': self.limit, 'returned': len(confs)}
                except Exception:
                    self.truncated = True
            return res
        pa.pda_epsilon_closure = spy
        return self

    def __exit__(self, *a):
        pa.pda_epsilon_closure = self.orig


def run_case(case, env):
    kind = case['kind']
    obj = build(case['spec'])
    s0 = snapshot(obj)
    out = {'viol': [], 'evals': 0, 'ticks': 0, 'probes': {'kind_' + kind: 1}, 'hist': {}}
    dig = []
    nontrivial = False
    if kind == 'regexp':
        sigma = sorted(rrx.symbols(s0['tree']))
        if set(sigma) & {'0', '1'}:
            out['probes']['regexp_symbol_0_or_1'] = 1
    else:
        sigma = sorted(s0['Sigma'])
    for step in case['steps']:
        if 'edit' in step:
            try:
                edits.apply(obj, step['edit'])
            except Exception:
                pass
            s0 = snapshot(obj)
            bad = fa.validate_dfa(s0) if kind == 'dfa' else (fa.validate_nfa(s0) if kind == 'nfa' else None)
            if bad:
                return {'harness_error': 'edit produced an invalid object: %s' % (step['edit'],)}
            if kind != 'regexp':
                sigma = sorted(s0['Sigma'])
            out['probes']['inplace_edit_between_calls'] = 1
            dig.append('edit')
            continue
        n = step['n']
        out['probes']['n_%d' % min(n, 2)] = 1
        words = fa.words_upto(sigma, n)
        truncated = False
        if kind == 'dfa':
            enum = lambda: da.dfa_words_up_to_n(obj, n)
            acc = lambda w: da.dfa_accepts_word(obj, w)
            site = 'dfa_words_up_to_n'
        elif kind == 'nfa':
            enum = lambda: na.nfa_words_up_to_n(obj, n)
            acc = lambda w: na.nfa_accepts_word(obj, w)
            site = 'nfa_words_up_to_n'
        elif kind == 'regexp':
            enum = lambda: ra.regexp_words_up_to_n(obj, n)
            acc = lambda w: ra.regexp_accepts_word(obj, w)
            site = 'regexp_words_up_to_n'
        elif kind == 'cfg':
            enum = lambda: ca.cfg_words_up_to_n(obj, n)
            acc = lambda w: ca.cfg_accepts_word(obj, w)
            site = 'cfg_words_up_to_n'
        elif kind == 'tm':
            k = step['max_steps']
            enum = lambda: ta.tm_words_up_to_n(obj, n, k)
            acc = lambda w: ta.tm_accepts_word(obj, w, k) is True
            site = 'tm_words_up_to_n'
        else:
            set_knobs(limit=step['limit'])
            enum = lambda: pa.pda_words_up_to_n(obj, n)
            acc = lambda w: pa.pda_accepts_word(obj, w)
            site = 'pda_words_up_to_n'

        def brute():
            return {w for w in words if acc(w)}

        budget = 15_000_000 if kind in ('cfg', 'pda') else 10_000_000      # >= 10x the measured maximum of the repaired tree per kind
        if kind == 'pda':
            with ClosureSpy(s0, step['limit']) as spy:
                r1 = call(env, enum, budget=budget)
                r2 = call(env, brute, budget=budget) if r1[0] != 'timeout' else None
                # generate_language must be the same function of the same ambient knob
                r3 = call(env, lg.generate_language, obj, n, budget=budget) if r1[0] != 'timeout' and r2[0] != 'timeout' else None
            truncated = spy.truncated
            if spy.early:
                out['viol'].append(viol('closure-truncated-below-limit', 'pda_epsilon_closure', {'step': step, **spy.early}))
        else:
            r1 = call(env, enum, budget=budget)
            r2 = call(env, brute, budget=budget) if r1[0] != 'timeout' else None
            if (kind == 'tm' and step['max_steps'] != 1000) or r1[0] == 'timeout' or r2[0] == 'timeout':
                r3 = None       # generate_language has no step-budget argument; compared only under the default budget
            else:
                r3 = call(env, lg.generate_language, obj, n, budget=budget)
        out['evals'] += 1
        for r in (r1, r2, r3):
            if r is not None:
                out['ticks'] += r[2]
        bad = False
        for r, s in ((r1, site), (r2, site.replace('words_up_to_n', 'accepts_word')), (r3, 'generate_language')):
            if r is None:
                continue
            if r[0] == 'timeout':
                out['viol'].append(viol('no-result-within-budget', s, {'n': n, 'step': step}))
                bad = True
            elif r[0] == 'exc':
                out['viol'].append(viol('exception', s, {'n': n, 'step': step, 'exc': r[1]}))
                bad = True
        if bad:
            dig.append('X')
            if any(r is not None and r[0] == 'timeout' for r in (r1, r2, r3)):
                break           # one exceeded budget per case is enough; the rest of the session would only burn time
            continue
        E, B = r1[1], r2[1]
        if not isinstance(E, (set, frozenset)) or not all(isinstance(w, str) for w in E):
            out['viol'].append(viol('invalid-result', site, repr(E)[:200]))
            continue
        E = set(map(str, E))
        tags = ['n=%d' % n] if n <= 1 else []
        if truncated:
            out['probes']['closure_truncated'] = 1
        too_long = sorted(w for w in E if len(w) > n)
        if too_long:
            out['viol'].append(viol('word-longer-than-n', site, {'n': n, 'word': too_long[0], 'step': step}, tags=tags))
        if not truncated:
            missing = sorted(B - E, key=lambda w: (len(w), w))
            extra = sorted((E - B) - set(too_long), key=lambda w: (len(w), w))
            if missing:
                out['viol'].append(viol('word-missing', site, {'n': n, 'word': missing[0], 'step': step}, tags=tags))
            if extra:
                out['viol'].append(viol('word-extra', site, {'n': n, 'word': extra[0], 'step': step}, tags=tags))
        if r3 is not None:
            Gl = r3[1]
            if not isinstance(Gl, (set, frozenset)) or (set(map(str, Gl)) != E and not truncated):
                out['viol'].append(viol('generate-language-differs', 'generate_language', {'n': n, 'step': step,
                                        'direct': sorted(E)[:10], 'generic': sorted(map(str, Gl))[:10] if isinstance(Gl, (set, frozenset)) else repr(Gl)}))
        if 0 < len(B) < len(words):
            nontrivial = True
        dig.append([n, len(E), 'free' if truncated else sorted(E)])
    if kind == 'pda':
        set_knobs(limit=1000)
    if snapshot(obj) != s0:
        out['viol'].append(viol('argument-mutated', kind + '_words_up_to_n', None))
    if nontrivial:
        out['nontrivial_keys'] = [case['abs']]
        out['probes']['nontrivial'] = 1
    fp = order_fingerprint(obj, case.get('rank', {}))
    out['scheds'] = [hx([case['abs'], fp])]
    out['digest'] = hx([dig, fp])
    return out


def shrink(case):
    kind = case['kind']
    for i in range(len(case['steps'])):
        if len(case['steps']) > 1:
            c = copy.deepcopy(case)
            del c['steps'][i]
            yield c
    it = ()
    if kind == 'dfa':
        it = genfa.shrink_dfa(case['spec'])
    elif kind == 'nfa':
        it = genfa.shrink_nfa(case['spec'])
    elif kind == 'pda':
        from props.c15 import _shrink_pda
        it = _shrink_pda(case['spec'])
    elif kind == 'cfg':
        from props.c08 import shrink as s8
        it = (c['spec'] for c in s8({'spec': case['spec'], 'hint': 'S', 'phase': 5}) if 'spec' in c)
    elif kind == 'regexp':
        from props.c06 import _shrink_tree
        it = ({'kind': 'regexp', 'tree': t} for t in _shrink_tree(case['spec']['tree']))
    elif kind == 'tm':
        it = _shrink_tm(case['spec'])
    for t in it:
        c = copy.deepcopy(case)
        c['spec'] = t
        yield c
    for i, st in enumerate(case['steps']):
        if 'n' in st and st['n'] > 0:
            c = copy.deepcopy(case)
            c['steps'][i]['n'] = st['n'] - 1
            yield c


def _shrink_tm(s):
    for i in range(len(s['delta'])):
        t = copy.deepcopy(s)
        del t['delta'][i]
        yield t
    for q in s['Q']:
        if q in (s['q0'], s['acc'], s['rej']):
            continue
        if any(q in (d[0], d[2]) for d in s['delta']):
            continue
        t = copy.deepcopy(s)
        t['Q'] = [x for x in t['Q'] if x != q]
        yield t


def sample(case, res):
    return {'kind': case['kind'], 'object': case['spec'], 'steps': case['steps'], 'violations': [v['cls'] for v in res.get('viol', [])]}
