"""C15 — simulation traces and derivations are genuine witnesses and are always produced.
Dimensions: schedule (hash seed x renaming x insertion order: todo.pop(), `for q in Q1`, next(r for r in S ...)),
simulated clock (bounded liveness: every call must return within the tick budget)."""
import copy

from props.common import call, viol, hx, set_knobs
from sim.objects import build, snapshot, order_fingerprint
from ref import fa, cfg as rcfg, pda as rpda
from gen import fa as genfa, cfg as gencfg, pda as genpda, edits
import gambatools.dfa_algorithms as da
import gambatools.nfa_algorithms as na
import gambatools.pda_algorithms as pa
import gambatools.cfg_algorithms as ca
from gambatools.cfg import Variable, Terminal

ID = 'C15'
BUDGET = 200_000


def _pick_words(rng, sigma, accepted_fn, maxlen, n_acc, n_rej):
    ws = fa.words_upto(sorted(sigma), maxlen)
    acc = [w for w in ws if accepted_fn(w)]
    rej = [w for w in ws if not accepted_fn(w)]
    rng.shuffle(acc)
    rng.shuffle(rej)
    # always include the shortest accepted word and prefer long ones after that
    acc.sort(key=len)
    chosen = acc[:1] + sorted(acc[1:], key=lambda w: -len(w))[:max(0, n_acc - 1)]
    return chosen + rej[:n_rej]


def gen_cases(rng, tier, rnd):
    n = {'quick': 260, 'thorough': 1300, 'selftest': 60}[tier]
    cases = []
    if rnd < 2:
        for c in genfa.CORNER_NFAS:
            for _ in range(4):
                s, rank = genfa.rename(c, rng)
                N = fa.rnfa_of(s)
                cases.append({'kind': 'nfa', 'spec': s, 'rank': rank, 'abs': hx(c), 'words': _pick_words(rng, s['Sigma'], N.accepts, 4, 5, 2)})
        for c in genpda.CORNERS:
            for _ in range(3):
                s, rank = genfa.rename(c, rng)
                cases.append({'kind': 'pda', 'spec': s, 'rank': rank, 'abs': hx(c), 'limit': rng.choice([30, 100, 1000]),
                              'words': _pick_words(rng, s['Sigma'], lambda w: rpda.accepts(s, w), 4, 4, 2)})
    for _ in range({'quick': 1, 'thorough': 4, 'selftest': 1}[tier]):
        # the closure limit raised above its default, and a run whose epsilon path needs more than 1000 search steps
        a = genpda.big_closure_pda(rng, depth=10, needle=False)
        s, rank = genfa.rename(a, rng)
        cases.append({'kind': 'pda', 'spec': s, 'rank': rank, 'abs': hx(a), 'limit': rng.choice([2500, 3000, 5000]), 'words': [s['Sigma'][0]]})
    if rnd % 4 == 0:
        a = genfa.long_epsilon_chain_nfa(rng)
        cases.append({'kind': 'nfa', 'spec': a, 'rank': {}, 'abs': hx([len(a['Q']), a['q0']]), 'words': ['a'], 'long': True})
    while len(cases) < n:
        r = rng.random()
        if r < 0.15:
            a = genfa.abstract_dfa(rng, 1, 5, 1, 2, unreachable_max=1)
            s, rank = genfa.rename(a, rng)
            N = fa.rnfa_of(s)
            cases.append({'kind': 'dfa', 'spec': s, 'rank': rank, 'abs': hx(a), 'words': _pick_words(rng, s['Sigma'], N.accepts, 5, 5, 0)})
        elif r < 0.55:
            a = genfa.abstract_nfa(rng, 1, 6, 1, 2, eps_p=rng.choice([0.2, 0.35, 0.5, 0.6]))
            s, rank = genfa.rename(a, rng)
            s['dd'] = rng.random() < 0.7
            N = fa.rnfa_of(s)
            cases.append({'kind': 'nfa', 'spec': s, 'rank': rank, 'abs': hx(a), 'words': _pick_words(rng, s['Sigma'], N.accepts, 4, 5, 2)})
        elif r < 0.8:
            a = {**genpda.ambiguous_stack_pda(rng), 'keep_gamma': True} if rng.random() < 0.12 else genpda.abstract_pda(rng)
            s, rank = genfa.rename(a, rng)
            s['dd'] = rng.random() < 0.7        # else a plain dict that has only the keys of the transitions
            lim = rng.choice([20, 60, 200, 1000])
            maxlen = 4
            if lim == 1000 and not rpda.closure_sizes(s, '', 300)[1]:
                maxlen = 2      # unbounded closure under the default limit: the sets grow by ~2000 configurations per letter
            cases.append({'kind': 'pda', 'spec': s, 'rank': rank, 'abs': hx(a), 'limit': lim,
                          'words': _pick_words(rng, s['Sigma'], lambda w: rpda.accepts(s, w), maxlen, 4, 2)})
        else:
            a = gencfg.abstract_cnf(rng)
            s, rank = gencfg.rename(a, rng)
            L = sorted(w for w in rcfg.lang_upto(s, 5) if w)
            rng.shuffle(L)
            L.sort(key=lambda w: -len(w))
            cases.append({'kind': 'cfg', 'spec': s, 'rank': rank, 'abs': hx(a), 'words': L[:4] + L[-1:]})
    for c in cases:
        if c['kind'] in ('dfa', 'nfa', 'pda') and rng.random() < 0.3:
            c['edit'] = edits.propose(rng, c['spec'])
        elif c['kind'] == 'cfg' and rng.random() < 0.4:
            c['edit'] = edits.propose(rng, {**c['spec'], 'cnf_only': True})
            if rng.random() < 0.5:
                # history: another grammar was derived from, and dropped, earlier in the same interpreter
                c['prelude'] = gencfg.rename(gencfg.abstract_cnf(rng), rng)[0]
    if rnd % 2 == 1:
        # a large finite closure whose ONLY accepting configuration is the one a breadth-first search discovers last (after
        # more than a thousand expansions), under a limit raised above the default.  Drawn from a generator of its own and
        # appended at the end, so that the cases above are the same as before this family existed.
        import random
        r2 = random.Random(7919 * rnd + 13)
        a = genpda.big_closure_pda(r2, depth=10, needle=True)
        s, rank = genfa.rename(a, r2)
        cases.append({'kind': 'pda', 'spec': s, 'rank': rank, 'abs': hx(a), 'limit': r2.choice([3500, 5000]), 'words': ['', s['Sigma'][0]]})
    return cases


# ------------------------------------------------------------------ witness checkers (snapshots only)

def check_fa_run(s, rows, w):
    """rows: list of [state, unread].  Returns problems."""
    if not isinstance(rows, list) or not rows:
        return ['no run returned']
    for r in rows:
        if not (isinstance(r, list) and len(r) == 2 and isinstance(r[0], str) and isinstance(r[1], str)):
            return ['malformed row %r' % (r,)]
    out = []
    if rows[0] != [s['q0'], w]:
        out.append('first row %s is not (q0, whole word)' % rows[0])
    eps = s.get('eps')
    step = {}
    if s['kind'] == 'dfa':
        for q, a, t in s['delta']:
            step.setdefault((q, a), set()).add(t)
    else:
        for q, a, T in s['delta']:
            step.setdefault((q, a), set()).update(T)
    for i in range(len(rows) - 1):
        (q, r), (q1, r1) = rows[i], rows[i + 1]
        ok = False
        if r1 == r and s['kind'] != 'dfa' and q1 in step.get((q, eps), ()):
            ok = True
        if r and r1 == r[1:] and q1 in step.get((q, r[0]), ()):
            ok = True
        if not ok:
            out.append('step %d: %s -> %s is not a transition' % (i, rows[i], rows[i + 1]))
            break
    if rows[-1][1] != '' or rows[-1][0] not in set(s['F']):
        out.append('last row %s is not (accepting state, nothing unread)' % rows[-1])
    return out


def check_pda_run(s, rows, w):
    if not isinstance(rows, list) or not rows:
        return ['no run returned']
    for r in rows:
        if not (isinstance(r, list) and len(r) == 3 and isinstance(r[0], str) and isinstance(r[1], str) and isinstance(r[2], list)):
            return ['malformed row %r' % (r,)]
    out = []
    if rows[0] != [s['q0'], w, []]:
        out.append('first row %s is not (q0, whole word, empty stack)' % rows[0])
    e = s['eps']
    moves = [(p, a, u, q, v) for p, a, u, T in s['delta'] for q, v in T]
    for i in range(len(rows) - 1):
        (q, r, st), (q1, r1, st1) = rows[i], rows[i + 1]
        ok = False
        for (p, a, u, t, v) in moves:
            if p != q or t != q1:
                continue
            if a == e:
                if r1 != r:
                    continue
            else:
                if not r or r[0] != a or r1 != r[1:]:
                    continue
            cur = list(st)
            if u != e:
                if not cur or cur[-1] != u:
                    continue
                cur = cur[:-1]
            if v != e:
                cur = cur + [v]
            if cur == st1:
                ok = True
                break
        if not ok:
            out.append('step %d: %s -> %s is not a transition' % (i, rows[i], rows[i + 1]))
            break
    if rows[-1][1] != '' or rows[-1][0] not in set(s['F']):
        out.append('last row %s is not (accepting state, nothing unread)' % rows[-1])
    return out


def _plain_rows(val):
    if val is None:
        return None
    try:
        return [[(list(x) if isinstance(x, (list, tuple)) else (str(x) if isinstance(x, str) else x)) for x in row] for row in val]
    except TypeError:
        return 'unreadable'


def _deriv_plain(val):
    out = []
    for elem in val:
        row = []
        for x in elem:
            if isinstance(x, Variable):
                row.append([str(x), 'V'])
            elif isinstance(x, Terminal):
                row.append([str(x), 'T'])
            else:
                row.append([str(x), 'T'])   # plain characters of the word count as terminals
        out.append(row)
    return out


def run_case(case, env):
    kind = case['kind']
    out = {'viol': [], 'evals': 0, 'ticks': 0, 'probes': {'kind_' + kind: 1}, 'hist': {}}
    dig = []
    if case.get('prelude') and kind == 'cfg':
        pre = build(case['prelude'])
        ps = snapshot(pre)
        for w in sorted(w for w in rcfg.lang_upto(ps, 3) if w)[:3] + [w for w in case['words'][:2]]:
            call(env, ca.cfg_derive_word, pre, w, 'leftmost', budget=BUDGET)
        del pre
        out['probes']['earlier_derivations_from_a_dropped_grammar'] = 1
    obj = build(case['spec'])
    nontrivial = _run_phase(case, env, obj, out, dig)
    if case.get('edit') and kind in ('dfa', 'nfa', 'pda', 'cfg') and not out.get('stop'):
        # object-lifetime history: simulate, edit the live object in place, simulate again
        set_knobs(limit=1000)
        try:
            edits.apply(obj, case['edit'])
        except Exception:
            out['probes']['edit_raised'] = 1
        s1 = snapshot(obj)
        bad = fa.validate_dfa(s1) if kind == 'dfa' else (fa.validate_nfa(s1) if kind == 'nfa' else (rpda.validate(s1) if kind == 'pda' else rcfg.validate(s1)))
        if bad:
            return {'harness_error': 'edit produced an invalid object: %s' % (case['edit'],)}
        out['probes']['inplace_edit_between_calls'] = 1
        n0 = len(out['viol'])
        nontrivial = _run_phase(case, env, obj, out, dig) or nontrivial
        for v in out['viol'][n0:]:
            v['tags'] = list(v.get('tags', [])) + ['after-inplace-edit']
    out.pop('stop', None)
    if nontrivial:
        out['nontrivial_keys'] = [case['abs']]
        out['probes']['nontrivial'] = 1
    fp = order_fingerprint(obj, case.get('rank', {}))
    out['scheds'] = [hx([case['abs'], fp])]
    out['digest'] = hx([dig, fp])
    return out


def _run_phase(case, env, obj, out, dig):
    kind = case['kind']
    snap0 = snapshot(obj)
    nontrivial = False

    def record(st, val, ticks, site, w):
        out['evals'] += 1
        out['ticks'] += ticks
        if st == 'timeout':
            out['viol'].append(viol('no-result-within-budget', site, {'word': w, 'ticks': ticks}))
            dig.append('T')
            out['stop'] = 1      # one exceeded budget per case is enough
            return False
        if st == 'exc':
            out['viol'].append(viol('exception', site, {'word': w, 'exc': val}))
            dig.append('E')
            return False
        return True

    if kind in ('dfa', 'nfa'):
        N = fa.rnfa_of(snap0)
        has_eps_cycle = _has_eps_cycle(snap0) if kind == 'nfa' else False
        if has_eps_cycle:
            out['probes']['epsilon_cycle_present'] = 1
        fn = da.dfa_simulate_word if kind == 'dfa' else na.nfa_simulate_word
        site = fn.__name__
        for w in case['words']:
            acc = N.accepts(w)
            st, val, ticks = call(env, fn, obj, w, budget=(60_000_000 if case.get('long') else BUDGET))
            if not record(st, val, ticks, site, w):
                if out.get('stop'):
                    break
                continue
            rows = _plain_rows(val)
            if acc:
                problems = check_fa_run(snap0, rows, w) if isinstance(rows, list) else ['returned %r for an accepted word' % (rows,)]
                if problems:
                    out['viol'].append(viol('invalid-run', site, {'word': w, 'run': rows, 'problems': problems[:2]}))
                else:
                    n_eps = sum(1 for i in range(len(rows) - 1) if rows[i][1] == rows[i + 1][1])
                    if len(rows) >= 3 and (n_eps >= 1 or kind == 'dfa'):
                        nontrivial = True
                    if n_eps:
                        out['probes']['run_with_epsilon_steps'] = 1
                dig.append(len(rows) if isinstance(rows, list) else -1)
            elif kind == 'nfa':
                if rows is not None:
                    out['viol'].append(viol('run-for-rejected-word', site, {'word': w, 'run': rows}))
                dig.append(None)
    elif kind == 'pda':
        set_knobs(limit=case.get('limit', 1000))
        out['probes']['limit_%s' % ('above_default' if case.get('limit', 1000) > 1000 else case.get('limit', 1000))] = 1
        for w in case['words']:
            exact = rpda.accepts(snap0, w)
            pb = 500_000 + 12000 * (max(case.get('limit', 1000), 1000) + 30) * (len(w) + 1) ** 2
            st, lib_acc, ticks = call(env, pa.pda_accepts_word, obj, w, budget=pb)
            if not record(st, lib_acc, ticks, 'pda_accepts_word', w):
                if out.get('stop'):
                    break
                continue
            st, val, ticks = call(env, pa.pda_simulate_word, obj, w, budget=min(500_000 + 20 * ticks, max(30_000_000, 8 * ticks)))
            if not record(st, val, ticks, 'pda_simulate_word', w):
                if out.get('stop'):
                    break
                continue
            rows = _plain_rows(val)
            if not exact:
                if rows is not None:
                    out['viol'].append(viol('run-for-rejected-word', 'pda_simulate_word', {'word': w, 'run': rows}))
                dig.append(None)
            elif lib_acc is True or rpda.closure_sizes(snap0, w, case.get('limit', 1000))[1]:
                # a witness is demanded when the library itself accepts, and also when every exact closure fits under
                # the limit (then acceptance is complete by C09, so "accepted" is not a matter of the library's opinion)
                if lib_acc is not True:
                    out['probes']['witness_demanded_although_library_rejects'] = 1
                problems = check_pda_run(snap0, rows, w) if isinstance(rows, list) else ['returned %r for a word pda_accepts_word accepts' % (rows,)]
                if problems:
                    out['viol'].append(viol('invalid-run', 'pda_simulate_word', {'word': w, 'run': rows, 'problems': problems[:2]}))
                else:
                    if len(rows) >= 3 and any(rows[i][1] == rows[i + 1][1] for i in range(len(rows) - 1)):
                        nontrivial = True
                dig.append(len(rows) if isinstance(rows, list) else -1)
            else:
                out['probes']['pda_accepted_word_missed_by_library_under_limit'] = 1
                if isinstance(rows, list):
                    # not demanded, but if a run is returned it must be genuine
                    problems = check_pda_run(snap0, rows, w)
                    if problems:
                        out['viol'].append(viol('invalid-run', 'pda_simulate_word', {'word': w, 'run': rows, 'problems': problems[:2]}))
                dig.append('missed')
        set_knobs(limit=1000)
    else:  # cfg
        if not rcfg.is_cnf(snap0) or rcfg.validate(snap0):
            return False
        L = rcfg.lang_upto(snap0, max([len(w) for w in case['words']] + [3]))
        extra = sorted((w for w in L if w and w not in case['words']), key=lambda w: (-len(w), w))[:3]
        for w in list(case['words']) + extra:
            if out.get('stop'):
                break
            if not w or w not in L:
                continue    # precondition of the statement: non-empty word generated by the grammar
            for mode in ('leftmost', 'rightmost'):
                st, val, ticks = call(env, ca.cfg_derive_word, obj, w, mode, budget=BUDGET)
                if not record(st, val, ticks, 'cfg_derive_word', w):
                    if out.get('stop'):
                        break
                    continue
                try:
                    d = _deriv_plain(val)
                except Exception as e:
                    out['viol'].append(viol('invalid-derivation', 'cfg_derive_word', {'word': w, 'mode': mode, 'problems': ['unreadable: %s' % e]}))
                    continue
                problems = rcfg.check_derivation(snap0, d, w, mode)
                if problems:
                    out['viol'].append(viol('invalid-derivation', 'cfg_derive_word', {'word': w, 'mode': mode, 'derivation': [''.join(x[0] for x in e) for e in d], 'problems': problems[:2]},
                                            tags=[mode]))
                elif len(d) >= 3:
                    nontrivial = True
                dig.append(len(d))
    after = snapshot(obj)
    if after != snap0:
        out['viol'].append(viol('argument-mutated', kind + '_simulate', {'before': snap0, 'after': after}))
    return nontrivial


def _has_eps_cycle(s):
    g = {}
    for q, a, T in s['delta']:
        if a == s['eps']:
            g.setdefault(q, set()).update(T)
    for start in g:
        seen, stack = set(), list(g[start])
        while stack:
            x = stack.pop()
            if x == start:
                return True
            if x not in seen:
                seen.add(x)
                stack.extend(g.get(x, ()))
    return False


def shrink(case):
    kind = case['kind']
    if case.get('edit'):
        c = copy.deepcopy(case)
        del c['edit']
        yield c
    for i in range(len(case['words'])):
        if len(case['words']) > 1:
            c = copy.deepcopy(case)
            del c['words'][i]
            yield c
    if kind == 'dfa':
        it = genfa.shrink_dfa(case['spec'], drop_symbols=False)
    elif kind == 'nfa':
        it = genfa.shrink_nfa(case['spec'])
    elif kind == 'pda':
        it = _shrink_pda(case['spec'])
    else:
        it = _shrink_cfg(case['spec'])
    for t in it:
        c = copy.deepcopy(case)
        c['spec'] = t
        sig = set(t['Sigma'])
        c['words'] = [w for w in c['words'] if set(w) <= sig]
        if c['words']:
            yield c
    for i, w in enumerate(case['words']):
        for j in range(len(w)):
            c = copy.deepcopy(case)
            c['words'][i] = w[:j] + w[j + 1:]
            if kind != 'cfg' or c['words'][i]:
                yield c


def _shrink_pda(s):
    for q in s['Q']:
        if q == s['q0']:
            continue
        t = copy.deepcopy(s)
        t['Q'] = [x for x in t['Q'] if x != q]
        t['F'] = [x for x in t['F'] if x != q]
        t['delta'] = [[p, a, u, [x for x in T if x[0] != q]] for p, a, u, T in t['delta'] if p != q]
        t['delta'] = [d for d in t['delta'] if d[3]]
        yield t
    for i in range(len(s['delta'])):
        t = copy.deepcopy(s)
        del t['delta'][i]
        yield t
    for i, d in enumerate(s['delta']):
        if len(d[3]) > 1:
            for j in range(len(d[3])):
                t = copy.deepcopy(s)
                del t['delta'][i][3][j]
                yield t
    for q in s['F']:
        t = copy.deepcopy(s)
        t['F'] = [x for x in s['F'] if x != q]
        yield t


def _shrink_cfg(s):
    for i in range(len(s['R'])):
        t = copy.deepcopy(s)
        del t['R'][i]
        if any(A == t['S'] for A, _ in t['R']) or True:
            yield t
    for v in s['V']:
        if v == s['S']:
            continue
        if any(A == v or any(x[0] == v and x[1] == 'V' for x in rhs) for A, rhs in s['R']):
            continue
        t = copy.deepcopy(s)
        t['V'] = [x for x in t['V'] if x != v]
        yield t


def sample(case, res):
    return {'kind': case['kind'], 'object': case['spec'], 'words': case['words'], 'violations': [v['cls'] for v in res.get('viol', [])]}
