"""C04 — three minimisers: equivalent DFA, pairwise distinguishable states, bounded state count, input untouched.
Dimensions beyond inputs: schedule (hash seed x renaming x insertion order), logging knob for Hopcroft."""
import copy

from props.common import call, viol, set_knobs, hx
from sim.objects import build, snapshot, order_fingerprint
from ref import fa
from gen import fa as genfa, edits
import gambatools.dfa_algorithms as da

ID = 'C04'
GENERIC_LOGGING_KNOB = False     # this property manages the logging knob itself
OPS = ('dfa_minimize', 'dfa_quotient', 'dfa_hopfcroft')
RULE = ('cases = seeded random complete DFAs (1-7 core states + 0-3 unreachable, |Sigma| 0-3, accepting ratio drawn from '
        '{0,.1,.5,.9,1}), DFAs with deliberately split (equivalent) states, and a fixed corner corpus; each renamed '
        'injectively and list-shuffled (insertion order) per case, run under the round\'s PYTHONHASHSEED in a pristine fork; '
        'all three minimisers per case. distinct = distinct abstract (pre-renaming) DFA; non-trivial = >=2 Nerode classes '
        'and at least one mergeable pair of states.')


def gen_cases(rng, tier, rnd):
    n = {'quick': 500, 'thorough': 2500, 'selftest': 120}[tier]
    cases = []
    if rnd < 2:
        for c in genfa.CORNER_DFAS:
            for _ in range(3):
                spec, rank = genfa.rename(c, rng)
                cases.append({'spec': spec, 'rank': rank, 'abs': hx(c), 'log': rng.random() < 0.3})
    while len(cases) < n:
        r = rng.random()
        if r < 0.006:
            a = genfa.anchor_probe_dfa(rng)
            spec, rank = genfa.rename(a, rng)
            cases.append({'spec': spec, 'rank': rank, 'abs': hx(a), 'log': False, 'ops': ['dfa_quotient', 'dfa_hopfcroft']})
            continue
        if r < 0.012:
            # large inputs: dozens of Nerode classes, classes that are split late (table filling is skipped for cost)
            a = genfa.abstract_dfa(rng, 30, 70, 2, 4, unreachable_max=3, acc_ratios=(0.3, 0.5, 0.5, 0.7))
            spec, rank = genfa.rename(a, rng)
            cases.append({'spec': spec, 'rank': rank, 'abs': hx(a), 'log': False, 'ops': ['dfa_quotient', 'dfa_hopfcroft']})
            continue
        if r < 0.04:
            a = genfa.abstract_dfa(rng, 12, 22, 3, 4, unreachable_max=2, acc_ratios=(0.3, 0.5, 0.5, 0.7))     # many Nerode classes
        elif r < 0.38:
            a = genfa.structured_dfa(rng)
        else:
            a = genfa.abstract_dfa(rng)
        spec, rank = genfa.rename(a, rng)
        case = {'spec': spec, 'rank': rank, 'abs': hx(a), 'log': rng.random() < 0.25}
        if rng.random() < 0.3:
            case['edit'] = edits.propose(rng, spec)     # minimise, edit the live object in place, minimise again
        if rng.random() < 0.2:
            case['prelude'] = edits.twin(rng, spec)      # a twin (other q0 or F) is minimised earlier in the same interpreter
        cases.append(case)
    return cases


def run_case(case, env):
    out = {'viol': [], 'evals': 0, 'ticks': 0, 'probes': {}, 'hist': {}}
    if case.get('prelude'):
        T = build(case['prelude'])
        for op in OPS:
            st, val, ticks = call(env, getattr(da, op), T)
            out['ticks'] += ticks
        out['probes']['earlier_calls_on_a_twin'] = 1
    D = build(case['spec'])
    fp = order_fingerprint(D, case.get('rank', {}))
    res_digest = []
    nontrivial = False
    for phase in ['fresh'] + (['after-inplace-edit'] if case.get('edit') else []):
        ptag = []
        if phase != 'fresh':
            edits.apply(D, case['edit'])
            ptag = [phase]
            out['probes']['inplace_edit_between_calls'] = 1
            if fa.validate_dfa(snapshot(D)):
                return {'harness_error': 'edit produced an invalid DFA: %s' % (case['edit'],)}
        snap0 = snapshot(D)
        c_in = fa.canon_of(snap0)
        call_all, call_reach, n_reach, _ = fa.nerode_counts(snap0)
        nontrivial = nontrivial or (call_all >= 2 and call_all < len(snap0['Q']))
        for op in case.get('ops', OPS):
            out['evals'] += 1
            set_knobs(logging=case.get('log', False) and op == 'dfa_hopfcroft')
            st, val, ticks = call(env, getattr(da, op), D, budget=(60_000_000 if len(case['spec']['Q']) > 25 else 20_000_000))
            set_knobs(logging=False)
            out['ticks'] += ticks
            after = snapshot(D)
            if after != snap0:
                out['viol'].append(viol('argument-mutated', op, {'before': snap0, 'after': after}, tags=ptag))
            if st == 'timeout':
                out['viol'].append(viol('no-result-within-budget', op, val, tags=ptag))
                continue
            if st == 'exc':
                out['viol'].append(viol('exception', op, val, tags=ptag))
                res_digest.append([op, val.split(':')[0]])
                continue
            try:
                rs = snapshot(val)
            except Exception as e:
                out['viol'].append(viol('invalid-result', op, 'not a DFA: %s' % e, tags=ptag))
                continue
            if rs.get('kind') != 'dfa':
                out['viol'].append(viol('invalid-result', op, 'not a DFA', tags=ptag))
                continue
            problems = fa.validate_dfa(rs)
            if problems:
                out['viol'].append(viol('invalid-result', op, problems[:3], tags=ptag))
                continue
            if sorted(rs['Sigma']) != sorted(snap0['Sigma']):
                out['viol'].append(viol('alphabet-changed', op, [rs['Sigma'], snap0['Sigma']], tags=ptag))
                continue
            c_out = fa.canon_of(rs)
            if c_out != c_in:
                out['viol'].append(viol('language-differs', op, {'word': fa.canon_distinguishing_word(c_in, c_out)}, tags=ptag))
            r_all, r_reach, r_nreach, r_distinct = fa.nerode_counts(rs)
            nq = len(rs['Q'])
            if not r_distinct:
                out['viol'].append(viol('equivalent-states-remain', op, {'states': nq, 'classes': r_all}, tags=ptag))
            if not (call_reach <= nq <= call_all):
                out['viol'].append(viol('state-count-out-of-range', op, {'states': nq, 'lo': call_reach, 'hi': call_all}, tags=ptag))
            res_digest.append([op, nq])
    if len(snap0['Q']) - n_reach > 0:
        out['probes']['has_unreachable'] = 1
    if not snap0['F']:
        out['probes']['F_empty'] = 1
    if len(snap0['F']) == len(snap0['Q']):
        out['probes']['F_full'] = 1
    if len(snap0['Q']) == 1:
        out['probes']['one_state'] = 1
    if call_all >= 12:
        out['probes']['at_least_12_classes'] = 1
    if call_all >= 30:
        out['probes']['at_least_30_classes'] = 1
    if not snap0['Sigma']:
        out['probes']['sigma_empty'] = 1
    if case.get('log'):
        out['probes']['logging_on'] = 1
    if nontrivial:
        out['probes']['nontrivial'] = 1
        out['nontrivial_keys'] = [case['abs']]
    out['scheds'] = [hx([case['abs'], fp])]
    out['digest'] = hx([res_digest, fp])
    return out


def shrink(case):
    s = case['spec']
    for key in ('edit', 'prelude'):
        if case.get(key):
            c = copy.deepcopy(case); del c[key]
            yield c
    if case.get('log'):
        c = copy.deepcopy(case); c['log'] = False
        yield c
    # drop a state (not q0): redirect incoming edges to q0
    for q in s['Q']:
        if q == s['q0']:
            continue
        c = copy.deepcopy(case)
        t = c['spec']
        t['Q'] = [x for x in t['Q'] if x != q]
        t['F'] = [x for x in t['F'] if x != q]
        t['delta'] = [[p, a, (r if r != q else t['q0'])] for p, a, r in t['delta'] if p != q]
        yield c
    for a in s['Sigma']:
        c = copy.deepcopy(case)
        t = c['spec']
        t['Sigma'] = [x for x in t['Sigma'] if x != a]
        t['delta'] = [d for d in t['delta'] if d[1] != a]
        yield c
    for q in s['F']:
        c = copy.deepcopy(case)
        c['spec']['F'] = [x for x in s['F'] if x != q]
        yield c
    # make a transition a self-loop
    for i, (p, a, r) in enumerate(s['delta']):
        if r != p:
            c = copy.deepcopy(case)
            c['spec']['delta'][i] = [p, a, p]
            yield c


def sample(case, res):
    return {'dfa': case['spec'], 'logging': case.get('log', False), 'violations': [v['cls'] for v in res.get('viol', [])]}


def known_predicates():
    return {}
