"""C18 — nfa_union / nfa_concatenation / nfa_repetition for arbitrary operands, after any number of earlier calls.
Dimensions: history (hidden process-global name generators, aliasing between results and operands; a session runs in a pristine
fork, so the step list IS the history), schedule (hash seed x renaming)."""
import copy

from props.common import call as _call, viol, hx


def call(env, fn, *a, **k):
    k.setdefault('budget', 20_000_000)      # termination is not what this property is about: generous budget, see DESIGN 8.6
    return _call(env, fn, *a, **k)
from sim.objects import build, snapshot, order_fingerprint
from ref import fa
from gen import fa as genfa, names, edits
import gambatools.nfa_algorithms as na
from gambatools.identifier_generator import IdentifierGenerator

ID = 'C18'


def _base(rng, used, eps, qstyle_p):
    a = genfa.abstract_nfa(rng, 1, 3, 1, 2, eps_p=rng.choice([0.0, 0.2, 0.4]))
    n = len(a['Q'])
    if rng.random() < qstyle_p:
        off = rng.choice([0, 0, 0, 1, 2, 3])
        new = ['q%d' % (off + i) for i in range(n)]
        if set(new) & used:
            new = None
    else:
        new = None
    while new is None:
        cand = names.fresh_state_names(rng, n, special_p=0.05, style='rand')
        if not (set(cand) & used):
            new = cand
    used.update(new)
    qm = dict(zip(a['Q'], new))
    # alphabets of different bases need not be nested: {a}, {b}, {a,c}, ...
    sm = dict(zip(sorted(a['Sigma']), rng.sample('abc', len(a['Sigma']))))
    syms = sorted(sm.values())
    s = {'kind': 'nfa', 'Q': names.shuffled(rng, [qm[q] for q in a['Q']]), 'Sigma': syms,
         'delta': [[qm[q], (eps if x == a['eps'] else sm[x]), [qm[t] for t in T]] for q, x, T in a['delta']],
         'q0': qm[a['q0']], 'F': [qm[q] for q in a['F']], 'eps': eps, 'dd': rng.random() < 0.6}
    if rng.random() < 0.3 and len(s['delta']) >= 1:
        # legal but unusual: several keys of delta hold the SAME set object (e.g. built with dict.fromkeys)
        src = rng.choice(s['delta'])
        keys = {(q, x) for q, x, _ in s['delta']}
        for _ in range(rng.randint(1, 2)):
            q, x = rng.choice(s['Q']), rng.choice(list(s['Sigma']) + [eps])
            if (q, x) not in keys:
                keys.add((q, x))
                s['delta'].append([q, x, list(src[2])])
        s['alias'] = True
    return s


def gen_cases(rng, tier, rnd):
    n = {'quick': 200, 'thorough': 1000, 'selftest': 50}[tier]
    cases = []
    while len(cases) < n:
        eps = rng.choice(['', 'ε', '_', 'e', '', 'ε', 'lambda', 'eps', 'ab'])
        qstyle_p = rng.choice([0.0, 0.3, 0.6])
        used = set()
        steps = []
        bases = {}     # id -> frozenset of base ids it is built from
        nid = 0
        for _ in range(rng.randint(2, 4)):
            steps.append({'op': 'make', 'id': nid, 'spec': _base(rng, used, eps, qstyle_p)})
            bases[nid] = frozenset([nid])
            nid += 1
        for _ in range(rng.randint(3, 9)):
            r = rng.random()
            ids = sorted(bases)
            if r < 0.12:
                b = rng.choice([k for k in ids if bases[k] == frozenset([k])] or ids)
                spec_b = next((st['spec'] for st in steps if st['op'] == 'make' and st['id'] == b), None)
                if spec_b is not None:
                    steps.append({'op': 'edit', 'a': b, 'edit': edits.propose(rng, spec_b)})
                continue
            if r < 0.2 and len(steps) < 9:
                steps.append({'op': 'make', 'id': nid, 'spec': _base(rng, used, eps, qstyle_p)})
                bases[nid] = frozenset([nid])
            elif r < 0.5:
                a = rng.choice(ids)
                steps.append({'op': 'star', 'id': nid, 'a': a, 'gen': rng.choice(['default', 'default', 'private'])})
                bases[nid] = bases[a]
            else:
                pairs = [(a, b) for a in ids for b in ids if a != b and not (bases[a] & bases[b])]
                if not pairs:
                    continue
                a, b = rng.choice(pairs)
                if rng.random() < 0.55:
                    steps.append({'op': 'union', 'id': nid, 'a': a, 'b': b, 'gen': rng.choice(['default', 'default', 'private'])})
                else:
                    steps.append({'op': 'concat', 'id': nid, 'a': a, 'b': b})
                bases[nid] = bases[a] | bases[b]
            nid += 1
        cases.append({'steps': steps, 'abs': hx(steps)})
    return cases


def _hidden_counters():
    out = []
    for fn in (na.nfa_union, na.nfa_repetition):
        for d in (fn.__defaults__ or ()):
            if isinstance(d, IdentifierGenerator):
                out.append(d.index)
    for v in vars(na).values():
        if isinstance(v, IdentifierGenerator):
            out.append(v.index)
    return out


def run_case(case, env):
    out = {'viol': [], 'evals': 0, 'ticks': 0, 'probes': {}, 'hist': {}}
    pool = {}
    dig = []
    fps = []
    nontrivial = False
    last_op = None
    for step in case['steps']:
        op = step['op']
        if op == 'make':
            try:
                pool[step['id']] = build(step['spec'])
            except Exception as e:
                return {'harness_error': 'cannot build %s: %s' % (step['spec'], e)}
            fps.append([step['spec']['Q'].index(q) for q in pool[step['id']].Q])
            if step['spec']['eps'] != '':
                out['probes']['non_default_epsilon'] = 1
            if step['spec'].get('alias'):
                out['probes']['operand_with_shared_target_sets'] = 1
            continue
        if op == 'edit':
            if step['a'] in pool:
                edits.apply(pool[step['a']], step['edit'])
                if fa.validate_nfa(snapshot(pool[step['a']])):
                    return {'harness_error': 'edit produced an invalid NFA: %s' % (step['edit'],)}
                out['probes']['inplace_edit_between_calls'] = 1
            continue
        ops = [step['a']] + ([step['b']] if 'b' in step else [])
        if any(o not in pool for o in ops):
            continue
        args = [pool[o] for o in ops]
        before = {k: snapshot(v) for k, v in pool.items()}
        snaps = [before[o] for o in ops]
        if len(args) == 2:
            if set(snaps[0]['Q']) & set(snaps[1]['Q']):
                out['probes']['skipped_not_disjoint'] = out['probes'].get('skipped_not_disjoint', 0) + 1
                continue
            if snaps[0]['eps'] != snaps[1]['eps']:
                continue
        if any(fa.validate_nfa(s) for s in snaps):
            out['probes']['skipped_operand_invalid'] = 1     # only after an earlier (already reported) mutation
            continue
        operand_states = set().union(*[set(s['Q']) for s in snaps])
        counters = _hidden_counters()
        for c in counters:
            out['hist']['hidden_counter_%d' % min(c, 9)] = 1
        if any(('q%d' % c) in operand_states for c in counters):
            out['probes']['next_default_name_is_an_operand_state'] = 1
        kw = {}
        if step.get('gen') == 'private':
            kw['id_generator'] = IdentifierGenerator()
            out['probes']['private_generator'] = 1
        fn = {'union': na.nfa_union, 'concat': na.nfa_concatenation, 'star': na.nfa_repetition}[op]
        site = fn.__name__
        if last_op:
            out['hist']['bigram_%s_%s' % (last_op, op)] = 1
        last_op = op
        if any('spec' not in next(s for s in case['steps'] if s.get('id') == o) for o in ops):
            nontrivial = True    # an operand is itself the result of an earlier construction
        st, val, ticks = call(env, fn, *args, **kw)
        out['evals'] += 1
        out['ticks'] += ticks
        tags = ['eps=%r' % snaps[0]['eps']] if snaps[0]['eps'] != '' else []
        # operands (and every other pool object) must be unchanged
        for k, v in pool.items():
            after = snapshot(v)
            if after != before[k]:
                out['viol'].append(viol('operand-mutated' if k in ops else 'bystander-mutated', site,
                                        {'object': k, 'before': before[k], 'after': after}))
        if st == 'timeout':
            out['viol'].append(viol('no-result-within-budget', site, val))
            continue
        if st == 'exc':
            out['viol'].append(viol('exception', site, val, tags=tags))
            continue
        try:
            rs = snapshot(val)
            assert rs['kind'] == 'nfa'
        except Exception as e:
            out['viol'].append(viol('invalid-result', site, 'not an NFA: %s' % e))
            continue
        problems = fa.validate_nfa(rs)
        if problems:
            out['viol'].append(viol('invalid-result', site, problems[:3], tags=tags))
            continue
        if op in ('union', 'star') and set(rs['Q']) <= operand_states:
            out['viol'].append(viol('introduced-state-not-distinct', site, {'result_states': rs['Q'], 'operand_states': sorted(operand_states)}))
        sig = sorted(set().union(*[set(s['Sigma']) for s in snaps]) | set(rs['Sigma']))
        cs = [fa.canon_of(s, sigma=sig) for s in snaps]
        if op == 'union':
            want = fa.ref_union(cs[0], cs[1])
        elif op == 'concat':
            want = fa.ref_concat(cs[0], cs[1])
        else:
            want = fa.ref_star(cs[0])
        got = fa.canon_of(rs, sigma=sig)
        if got != want:
            out['viol'].append(viol('language-differs', site, {'word': fa.canon_distinguishing_word(want, got), 'operands': snaps, 'result': rs}, tags=tags))
        pool[step['id']] = val
        dig.append([step['id'], hx(got), len(rs['Q'])])
    if nontrivial:
        out['nontrivial_keys'] = [case['abs']]
        out['probes']['nontrivial'] = 1
    out['scheds'] = [hx([case['abs'], fps])]
    out['digest'] = hx([dig, fps])
    return out


def _drop(case, sid):
    """Remove step `sid` and, transitively, every step that uses its result."""
    dead = {sid}
    steps = []
    for s in case['steps']:
        if s.get('id') in dead or s.get('a') in dead or s.get('b') in dead:
            if 'id' in s:
                dead.add(s['id'])
            continue
        steps.append(s)
    c = copy.deepcopy(case)
    c['steps'] = copy.deepcopy(steps)
    return c


def shrink(case):
    for s in reversed(case['steps']):
        if 'id' in s:
            yield _drop(case, s['id'])
    for i, s in enumerate(case['steps']):
        if s['op'] == 'edit':
            c = copy.deepcopy(case)
            del c['steps'][i]
            yield c
    for i, s in enumerate(case['steps']):
        if s.get('gen') == 'private':
            c = copy.deepcopy(case)
            c['steps'][i]['gen'] = 'default'
            yield c
    for i, s in enumerate(case['steps']):
        if s['op'] == 'make':
            for t in genfa.shrink_nfa(s['spec']):
                c = copy.deepcopy(case)
                c['steps'][i]['spec'] = t
                yield c
            if not s['spec'].get('dd', True):
                c = copy.deepcopy(case)
                c['steps'][i]['spec']['dd'] = True
                yield c
            if s['spec'].get('alias'):
                c = copy.deepcopy(case)
                c['steps'][i]['spec']['alias'] = False
                yield c


def sample(case, res):
    return {'session': [(s if s['op'] != 'make' else {'op': 'make', 'id': s['id'], 'nfa': s['spec']}) for s in case['steps']],
            'violations': [v['cls'] for v in res.get('viol', [])]}
