"""Reference semantics of context-free grammars, on specs:
  {'V': [...], 'Sigma': [...], 'R': [[A, [[name, 'V'|'T'], ...]], ...], 'S': A}
Formulation A: least fixpoint of per-variable word sets truncated at length n (exact for words <= n, any grammar).
Formulation B (self-test, CNF grammars only): CYK.
Also: structural predicates for the Chomsky phases and a derivation-step checker.
"""


def lang_upto(g, n):
    """Set of words of length <= n derivable from g['S']."""
    L = bounded_languages(g, n)
    return L.get(g['S'], set())


def bounded_languages(g, n):
    rules = [(A, rhs) for A, rhs in g['R']]
    L = {}
    for A, _ in rules:
        L.setdefault(A, set())
    changed = True
    while changed:
        changed = False
        for A, rhs in rules:
            cur = {''}
            dead = False
            for name, tag in rhs:
                if tag == 'T':
                    cur = {w + name for w in cur if len(w) + len(name) <= n}
                else:
                    B = L.get(name)
                    if not B:
                        dead = True
                        break
                    cur = {w + v for w in cur for v in B if len(w) + len(v) <= n}
                if not cur:
                    dead = True
                    break
            if dead:
                continue
            if not cur <= L[A]:
                L[A] |= cur
                changed = True
    return L


def validate(g):
    out = []
    V = set(g['V'])
    T = set(g['Sigma'])
    if g['S'] not in V:
        out.append('start variable not in V')
    for A, rhs in g['R']:
        if A not in V:
            out.append('lhs %s not in V' % A)
        for name, tag in rhs:
            if tag == 'V' and name not in V:
                out.append('undeclared variable %s' % name)
            elif tag == 'T' and name not in T:
                out.append('undeclared terminal %s' % name)
            elif tag not in ('V', 'T'):
                out.append('untyped symbol %s' % name)
    return out


# ---- postconditions of the five phases (Sipser, thm 2.9)

def start_not_on_rhs(g):
    return all(not (tag == 'V' and name == g['S']) for _, rhs in g['R'] for name, tag in rhs)


def no_epsilon_rules_except_start(g):
    return all(len(rhs) > 0 or A == g['S'] for A, rhs in g['R'])


def no_unit_rules(g):
    return all(not (len(rhs) == 1 and rhs[0][1] == 'V') for _, rhs in g['R'])


def rhs_at_most_two(g):
    return all(len(rhs) <= 2 for _, rhs in g['R'])


def is_cnf(g):
    S = g['S']
    for A, rhs in g['R']:
        if len(rhs) == 0:
            if A != S:
                return False
        elif len(rhs) == 1:
            if rhs[0][1] != 'T':
                return False
        elif len(rhs) == 2:
            if rhs[0][1] != 'V' or rhs[1][1] != 'V' or rhs[0][0] == S or rhs[1][0] == S:
                return False
        else:
            return False
    return True


# ---- CYK (formulation B)

def cyk_accepts(g, w):
    assert is_cnf(g)
    S = g['S']
    if w == '':
        return any(A == S and not rhs for A, rhs in g['R'])
    n = len(w)
    X = {}
    for i in range(n):
        X[i, i] = {A for A, rhs in g['R'] if len(rhs) == 1 and rhs[0][0] == w[i]}
    for m in range(1, n):
        for i in range(n - m):
            j = i + m
            cell = set()
            for k in range(i, j):
                for A, rhs in g['R']:
                    if len(rhs) == 2 and rhs[0][0] in X[i, k] and rhs[1][0] in X[k + 1, j]:
                        cell.add(A)
            X[i, j] = cell
    return S in X[0, n - 1]


# ---- derivation checker

def check_derivation(g, deriv, word, mode):
    """deriv: list of sentential forms, each a list of [name, tag].  mode 'leftmost' | 'rightmost'.
    Returns a list of problems (empty = genuine derivation of `word`)."""
    out = []
    if not isinstance(deriv, list) or not deriv:
        return ['no derivation returned']
    if deriv[0] != [[g['S'], 'V']]:
        out.append('first element is not [S]: %s' % deriv[0])
    rules = {}
    for A, rhs in g['R']:
        rules.setdefault(A, []).append(rhs)
    for i in range(len(deriv) - 1):
        x, y = deriv[i], deriv[i + 1]
        pos = [k for k, (nm, tag) in enumerate(x) if tag == 'V']
        if not pos:
            out.append('step %d: no variable left to rewrite' % i)
            break
        p = pos[0] if mode == 'leftmost' else pos[-1]
        ok = any(x[:p] + rhs + x[p + 1:] == y for rhs in rules.get(x[p][0], []))
        if not ok:
            out.append('step %d: %s => %s is not a %s step' % (i, _show(x), _show(y), mode))
            break
    last = deriv[-1]
    if any(tag != 'T' for _, tag in last) or ''.join(nm for nm, _ in last) != word:
        out.append('last element %s is not the word %r' % (_show(last), word))
    return out


def _show(x):
    return ''.join(nm for nm, _ in x)


# ---- CYK table and a reference leftmost derivation (used to feed the text-level checkers in C19)

def cyk_table(g, w):
    n = len(w)
    X = {}
    for i in range(n):
        X[i, i] = {A for A, rhs in g['R'] if len(rhs) == 1 and rhs[0][1] == 'T' and rhs[0][0] == w[i]}
    for m in range(1, n):
        for i in range(n - m):
            j = i + m
            cell = set()
            for k in range(i, j):
                for A, rhs in g['R']:
                    if len(rhs) == 2 and rhs[0][0] in X[i, k] and rhs[1][0] in X[k + 1, j]:
                        cell.add(A)
            X[i, j] = cell
    return X


def leftmost_derivation(g, w):
    """For a CNF grammar and a non-empty word it generates: list of sentential forms (lists of [name, tag])."""
    X = cyk_table(g, w)
    n = len(w)
    if g['S'] not in X[0, n - 1]:
        return None

    def expand(A, i, j):
        """Sequence of rule applications (A, rhs) in leftmost order deriving w[i..j] from A."""
        if i == j:
            return [(A, [[w[i], 'T']])]
        for k in range(i, j):
            for B, rhs in g['R']:
                if B == A and len(rhs) == 2 and rhs[0][0] in X[i, k] and rhs[1][0] in X[k + 1, j]:
                    return [(A, rhs)] + expand(rhs[0][0], i, k) + expand(rhs[1][0], k + 1, j)
        raise AssertionError('inconsistent CYK table')

    form = [[g['S'], 'V']]
    out = [list(form)]
    for A, rhs in expand(g['S'], 0, n - 1):
        p = next(k for k, (nm, tag) in enumerate(form) if tag == 'V')
        assert form[p][0] == A
        form = form[:p] + [list(x) for x in rhs] + form[p + 1:]
        out.append(list(form))
    return out
