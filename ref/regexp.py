"""Reference semantics of regular-expression trees (['0'] ['1'] ['sym',a] ['star',x] ['sum',l,r] ['cat',l,r]).
Formulation A: Thompson construction into ref.fa.RNFA -> canonical DFA (exact, all word lengths).
Formulation B: Brzozowski derivatives (matcher), used as cross-check in the self-test.
"""
from ref.fa import RNFA, determinize, canon


def symbols(t):
    op = t[0]
    if op in ('0', '1'):
        return set()
    if op == 'sym':
        return {t[1]}
    if op == 'star':
        return symbols(t[1])
    return symbols(t[1]) | symbols(t[2])


def size(t):
    op = t[0]
    if op in ('0', '1', 'sym'):
        return 1
    if op == 'star':
        return 1 + size(t[1])
    return 1 + size(t[1]) + size(t[2])


def thompson(t, sigma):
    """RNFA with one start and one final state per sub-expression (iterative, no recursion limit issues)."""
    trans, eps = {}, {}
    counter = [0]

    def new():
        counter[0] += 1
        return counter[0] - 1

    def add_eps(p, q):
        eps.setdefault(p, set()).add(q)

    # post-order evaluation with explicit stack
    out = {}
    stack = [(t, False)]
    while stack:
        node, done = stack.pop()
        key = id(node)
        if not done:
            stack.append((node, True))
            if node[0] == 'star':
                stack.append((node[1], False))
            elif node[0] in ('sum', 'cat'):
                stack.append((node[2], False))
                stack.append((node[1], False))
            continue
        op = node[0]
        s, f = new(), new()
        if op == '0':
            pass
        elif op == '1':
            add_eps(s, f)
        elif op == 'sym':
            if len(node[1]) == 1:
                trans.setdefault((s, node[1]), set()).add(f)
            else:
                # multi-character symbol: chain
                cur = s
                for ch in node[1][:-1]:
                    nx = new()
                    trans.setdefault((cur, ch), set()).add(nx)
                    cur = nx
                trans.setdefault((cur, node[1][-1]), set()).add(f)
        elif op == 'star':
            s1, f1 = out[id(node[1])]
            add_eps(s, f)
            add_eps(s, s1)
            add_eps(f1, s1)
            add_eps(f1, f)
        elif op == 'sum':
            s1, f1 = out[id(node[1])]
            s2, f2 = out[id(node[2])]
            add_eps(s, s1)
            add_eps(s, s2)
            add_eps(f1, f)
            add_eps(f2, f)
        elif op == 'cat':
            s1, f1 = out[id(node[1])]
            s2, f2 = out[id(node[2])]
            add_eps(s, s1)
            add_eps(f1, s2)
            add_eps(f2, f)
        else:
            raise ValueError(node)
        out[key] = (s, f)
    s, f = out[id(t)]
    return RNFA(counter[0], tuple(sorted(sigma)), trans, eps, s, {f})


def canon_of_regexp(t, sigma=None):
    import json
    t = json.loads(json.dumps(t))  # private copy: thompson() keys sub-terms by id()
    sig = symbols(t) if sigma is None else set(sigma)
    chars = set()
    for a in sig:
        chars |= set(a)
    N = thompson(t, chars)
    tr, acc = determinize(N)
    return canon(tr, acc, N.sigma)


# ---- formulation B: derivatives

def nullable(t):
    op = t[0]
    if op == '0' or op == 'sym':
        return False
    if op == '1' or op == 'star':
        return True
    if op == 'sum':
        return nullable(t[1]) or nullable(t[2])
    return nullable(t[1]) and nullable(t[2])


def _mk_sum(a, b):
    if a == ['0']:
        return b
    if b == ['0']:
        return a
    if a == b:
        return a
    return ['sum', a, b]


def _mk_cat(a, b):
    if a == ['0'] or b == ['0']:
        return ['0']
    if a == ['1']:
        return b
    if b == ['1']:
        return a
    return ['cat', a, b]


def deriv(t, c):
    op = t[0]
    if op in ('0', '1'):
        return ['0']
    if op == 'sym':
        s = t[1]
        if s and s[0] == c:
            return ['1'] if len(s) == 1 else ['sym', s[1:]]
        return ['0']
    if op == 'sum':
        return _mk_sum(deriv(t[1], c), deriv(t[2], c))
    if op == 'cat':
        d = _mk_cat(deriv(t[1], c), t[2])
        if nullable(t[1]):
            return _mk_sum(d, deriv(t[2], c))
        return d
    if op == 'star':
        return _mk_cat(deriv(t[1], c), t)
    raise ValueError(t)


def matches(t, w):
    for c in w:
        t = deriv(t, c)
        if t == ['0']:
            return False
    return nullable(t)
