"""Reference semantics of Sipser-style PDAs (acceptance by final state), on snapshots:
  delta: [[p, a, u, [[q, v], ...]], ...]   a in Sigma+{eps}, u popped (eps = nothing), v pushed (eps = nothing)
  stack top = end of the list; a computation starts in (q0, []).

Formulation A (exact, any stack growth, epsilon cycles):  matched-push/pop summaries
  (CFL reachability) over control states (state, input position).  Every pop matches one
  earlier push, so a computation from the empty stack is a sequence of *same-level* segments
  separated by pushes that are never popped.  same-level reachability S is the least relation with
     S(c,c);  S(c,c1) & noop c1->c2  =>  S(c,c2);
     S(c,c1) & push(g) c1->c2 & S(c2,c3) & pop(g) c3->c4  =>  S(c,c4)
  ("replace u by v" is split into pop(u) ; push(v) through a private intermediate control state).
  Reachable controls R: c0 in R;  c in R & S(c,c') => c' in R;  c in R & push c->c' => c' in R.
  w is accepted iff some (f, |w|) with f in F is in R.
Formulation B (self-test + closure sizes): explicit breadth-first search over configurations with a cap.
"""
from collections import deque


def _moves(p):
    """List of (src, a, u, dst, v) with eps normalised to None."""
    e = p['eps']
    out = []
    for src, a, u, T in p['delta']:
        for dst, v in T:
            out.append((src, None if a == e else a, None if u == e else u, dst, None if v == e else v))
    return out


def accepts(p, w):
    moves = _moves(p)
    n = len(w)
    if any(ch not in p['Sigma'] for ch in w):
        return False
    noop, push, pop = {}, {}, {}   # control -> list
    inter = [0]

    def add(tab, c, val):
        tab.setdefault(c, []).append(val)

    for i in range(n + 1):
        for (src, a, u, dst, v) in moves:
            if a is None:
                j = i
            elif i < n and w[i] == a:
                j = i + 1
            else:
                continue
            c, d = (src, i), (dst, j)
            if u is None and v is None:
                add(noop, c, d)
            elif u is None:
                add(push, c, (v, d))
            elif v is None:
                add(pop, c, (u, d))
            else:
                inter[0] += 1
                m = ('#', inter[0])
                add(pop, c, (u, m))
                add(push, m, (v, d))

    # ---- same-level summaries, computed on demand from the sources we need
    fwd = {}   # c -> set(c')  with S(c,c')
    bwd = {}   # c' -> set(c)
    pushers = {}  # c2 -> list of (g, c1) with push(g) c1->c2
    for c1, lst in push.items():
        for g, c2 in lst:
            pushers.setdefault(c2, []).append((g, c1))
    work = deque()

    def addS(c, d):
        s = fwd.setdefault(c, set())
        if d not in s:
            s.add(d)
            bwd.setdefault(d, set()).add(c)
            work.append((c, d))

    started = set()

    def start(c):
        if c not in started:
            started.add(c)
            addS(c, c)

    c0 = (p['q0'], 0)
    R = set()
    rwork = deque()

    def addR(c):
        if c not in R:
            R.add(c)
            rwork.append(c)
            start(c)

    addR(c0)
    while rwork or work:
        while work:
            c, c1 = work.popleft()
            if c in R:
                addR(c1)
            for c2 in noop.get(c1, ()):
                addS(c, c2)
            # (c, c1) as the left segment of a matched push/pop
            for g, c2 in push.get(c1, ()):
                start(c2)
                for c3 in list(fwd.get(c2, ())):
                    for g2, c4 in pop.get(c3, ()):
                        if g2 == g:
                            addS(c, c4)
            # (c, c1) as the middle segment: push(g) cx->c, pop(g) c1->c4, S(c00, cx)
            for g, cx in pushers.get(c, ()):
                for g2, c4 in pop.get(c1, ()):
                    if g2 == g:
                        for c00 in list(bwd.get(cx, ())):
                            addS(c00, c4)
        while rwork:
            c = rwork.popleft()
            for d in list(fwd.get(c, ())):
                addR(d)
            for g, d in push.get(c, ()):
                addR(d)
    F = set(p['F'])
    return any((f, n) in R for f in F)


# ------------------------------------------------------------------ formulation B: configuration BFS

def _eps_succ(moves, q, st):
    for (src, a, u, dst, v) in moves:
        if src != q or a is not None:
            continue
        r = _apply(st, u, v)
        if r is not None:
            yield dst, r


def _apply(st, u, v):
    if u is not None:
        if not st or st[-1] != u:
            return None
        st = st[:-1]
    if v is not None:
        st = st + (v,)
    return st


def closure_capped(moves, confs, cap):
    """BFS epsilon-closure of a set of configurations; stops as soon as more than `cap` configurations
    are known.  Returns (set, complete?)."""
    seen = set(confs)
    dq = deque(sorted(seen))
    if len(seen) > cap:
        return seen, False
    while dq:
        q, st = dq.popleft()
        for t in _eps_succ(moves, q, st):
            if t not in seen:
                seen.add(t)
                if len(seen) > cap:
                    return seen, False
                dq.append(t)
    return seen, True


def step(moves, confs, a):
    out = set()
    for q, st in confs:
        for (src, a1, u, dst, v) in moves:
            if src != q or a1 != a:
                continue
            r = _apply(st, u, v)
            if r is not None:
                out.add((dst, r))
    return out


def closure_sizes(p, w, cap):
    """Exact sizes |C0|, |C1|, ... of the closed configuration sets the textbook algorithm computes
    for w, as long as each is <= cap.  Returns (sizes, within?, accepted-or-None).  If some closure
    exceeds cap, within is False and accepted is None (BFS cannot decide)."""
    moves = _moves(p)
    F = set(p['F'])
    C, ok = closure_capped(moves, {(p['q0'], ())}, cap)
    sizes = [len(C)]
    if not ok:
        return sizes, False, None
    for ch in w:
        C, ok = closure_capped(moves, step(moves, C, ch), cap)
        sizes.append(len(C))
        if not ok:
            return sizes, False, None
    return sizes, True, any(q in F for q, _ in C)


def accepts_bfs(p, w, cap=3000):
    """None when the capped BFS cannot decide."""
    return closure_sizes(p, w, cap)[2]


def is_eps_closed(p, confs):
    """confs: iterable of (q, tuple(stack)).  True iff no epsilon move leaves the set."""
    moves = _moves(p)
    S = set(confs)
    for q, st in S:
        for t in _eps_succ(moves, q, st):
            if t not in S:
                return False
    return True


def validate(p):
    out = []
    Q, Sig, Gam, e = set(p['Q']), set(p['Sigma']), set(p['Gamma']), p['eps']
    if p['q0'] not in Q:
        out.append('q0 not in Q')
    if not set(p['F']) <= Q:
        out.append('F not subset of Q')
    if e in Sig or e in Gam:
        out.append('epsilon in an alphabet')
    for src, a, u, T in p['delta']:
        if src not in Q:
            out.append('source outside Q')
        if a != e and a not in Sig:
            out.append('input symbol undeclared: %r' % a)
        if u != e and u not in Gam:
            out.append('stack symbol undeclared: %r' % u)
        for dst, v in T:
            if dst not in Q:
                out.append('target outside Q')
            if v != e and v not in Gam:
                out.append('stack symbol undeclared: %r' % v)
    return out


def accepts_bfs_partial(p, w, cap=400):
    """Sound under-approximation: BFS closures truncated at cap.  True = certainly accepted, None = unknown."""
    moves = _moves(p)
    F = set(p['F'])
    C, _ = closure_capped(moves, {(p['q0'], ())}, cap)
    for ch in w:
        C, _ = closure_capped(moves, step(moves, C, ch), cap)
    return True if any(q in F for q, _ in C) else None
