"""Reference decision of DFA isomorphism of reachable parts.
Formulation A: canonical BFS numbering from q0 in sorted-symbol order; isomorphic iff equal forms.
Formulation B (self-test): brute-force search for a bijection.
"""
from collections import deque
from itertools import permutations

from ref.fa import dfa_tables, reachable


def bfs_form(s):
    Q, rows, acc, q0 = dfa_tables(s)
    num = {q0: 0}
    order = [q0]
    dq = deque([q0])
    while dq:
        q = dq.popleft()
        for t in rows[q]:
            if t not in num:
                num[t] = len(order)
                order.append(t)
                dq.append(t)
    return (tuple(sorted(s['Sigma'])), tuple(tuple(num[t] for t in rows[q]) for q in order), tuple(acc[q] for q in order))


def isomorphic(s1, s2):
    return bfs_form(s1) == bfs_form(s2)


def isomorphic_bruteforce(s1, s2):
    if sorted(s1['Sigma']) != sorted(s2['Sigma']):
        return False
    _, r1, a1, i1 = dfa_tables(s1)
    _, r2, a2, i2 = dfa_tables(s2)
    R1 = sorted(reachable(r1, i1))
    R2 = sorted(reachable(r2, i2))
    if len(R1) != len(R2):
        return False
    for perm in permutations(R2):
        f = dict(zip(R1, perm))
        if f[i1] != i2:
            continue
        if all(a1[q] == a2[f[q]] for q in R1) and all(f[r1[q][k]] == r2[f[q]][k] for q in R1 for k in range(len(r1[q]))):
            return True
    return False
