"""Reference semantics for finite automata.  Works on specs/snapshots only; shares no
code with gambatools.  Two formulations of each notion exist so that they can be
cross-checked in the self-test (ref/selftest.py).
"""
from collections import deque


# ------------------------------------------------------------------ validators

def validate_dfa(s):
    """Problems that make a snapshot an invalid (non-total, non-closed) DFA."""
    out = []
    Q = set(s['Q'])
    Sig = set(s['Sigma'])
    if len(Q) != len(s['Q']):
        out.append('duplicate states')
    if s['q0'] not in Q:
        out.append('q0 not in Q')
    if not set(s['F']) <= Q:
        out.append('F not subset of Q')
    seen = set()
    for q, a, q1 in s['delta']:
        if q not in Q or q1 not in Q:
            out.append('transition state outside Q: %s' % [q, a, q1])
        if a not in Sig:
            out.append('transition symbol outside Sigma: %s' % [q, a, q1])
        if (q, a) in seen:
            out.append('nondeterministic %s' % [q, a])
        seen.add((q, a))
    for q in s['Q']:
        for a in s['Sigma']:
            if (q, a) not in seen:
                out.append('not total at %s' % [q, a])
    for a in s['Sigma']:
        if len(a) != 1:
            out.append('symbol not a single character: %r' % a)
    return out


def validate_nfa(s):
    out = []
    Q = set(s['Q'])
    Sig = set(s['Sigma'])
    eps = s['eps']
    if s['q0'] not in Q:
        out.append('q0 not in Q')
    if not set(s['F']) <= Q:
        out.append('F not subset of Q')
    if eps in Sig:
        out.append('epsilon in Sigma')
    for q, a, T in s['delta']:
        if q not in Q:
            out.append('transition source outside Q: %s' % [q, a])
        if a not in Sig and a != eps:
            out.append('transition symbol outside Sigma+eps: %s' % [q, a])
        if not set(T) <= Q:
            out.append('transition target outside Q: %s' % [q, a, T])
    return out


# ------------------------------------------------------------------ NFA semantics (formulation A)

class RNFA:
    """Reference NFA: integer states, transitions by symbol, epsilon by None."""

    def __init__(self, n, sigma, trans, eps, q0, F):
        self.n = n              # states 0..n-1
        self.sigma = sigma      # sorted tuple of symbols
        self.trans = trans      # dict (q, a) -> set(q')   a in sigma
        self.eps = eps          # dict q -> set(q')
        self.q0 = q0
        self.F = F              # set

    def eclose(self, S):
        out = set(S)
        stack = list(S)
        while stack:
            q = stack.pop()
            for t in self.eps.get(q, ()):
                if t not in out:
                    out.add(t)
                    stack.append(t)
        return frozenset(out)

    def step(self, S, a):
        out = set()
        for q in S:
            out |= self.trans.get((q, a), set())
        return self.eclose(out)

    def accepts(self, w):
        S = self.eclose({self.q0})
        for a in w:
            if a not in self.sigma:
                return False
            S = self.step(S, a)
        return bool(S & self.F)


def rnfa_of_nfa(s, sigma=None):
    idx = {q: i for i, q in enumerate(s['Q'])}
    sig = tuple(sorted(s['Sigma'] if sigma is None else sigma))
    trans, eps = {}, {}
    for q, a, T in s['delta']:
        if a == s['eps']:
            eps.setdefault(idx[q], set()).update(idx[t] for t in T)
        else:
            trans.setdefault((idx[q], a), set()).update(idx[t] for t in T)
    return RNFA(len(idx), sig, trans, eps, idx[s['q0']], {idx[q] for q in s['F']})


def rnfa_of_dfa(s, sigma=None):
    idx = {q: i for i, q in enumerate(s['Q'])}
    sig = tuple(sorted(s['Sigma'] if sigma is None else sigma))
    trans = {}
    for q, a, q1 in s['delta']:
        trans.setdefault((idx[q], a), set()).add(idx[q1])
    return RNFA(len(idx), sig, trans, {}, idx[s['q0']], {idx[q] for q in s['F']})


def rnfa_of(s, sigma=None):
    return rnfa_of_dfa(s, sigma) if s['kind'] == 'dfa' else rnfa_of_nfa(s, sigma)


# ------------------------------------------------------------------ canonical minimal DFA

def determinize(N):
    """Subset construction, reachable part only, complete.  Returns (trans, acc):
    trans[i] = tuple of successor indices in sigma order, acc[i] bool; state 0 initial."""
    start = N.eclose({N.q0})
    index = {start: 0}
    order = [start]
    trans = []
    dq = deque([start])
    while dq:
        S = dq.popleft()
        row = []
        for a in N.sigma:
            T = N.step(S, a)
            if T not in index:
                index[T] = len(order)
                order.append(T)
                dq.append(T)
            row.append(index[T])
        trans.append(tuple(row))
    # rows were appended in BFS order == index order
    acc = [bool(S & N.F) for S in order]
    return trans, acc


def moore(trans, acc):
    """Partition refinement; returns class id per state (ids arbitrary)."""
    n = len(trans)
    cls = [1 if acc[i] else 0 for i in range(n)]
    while True:
        sig = {}
        new = []
        for i in range(n):
            key = (cls[i],) + tuple(cls[j] for j in trans[i])
            if key not in sig:
                sig[key] = len(sig)
            new.append(sig[key])
        if len(set(new)) == len(set(cls)):
            return new
        cls = new


def canon(trans, acc, sigma):
    """Canonical minimal complete DFA of the (reachable, complete) DFA given."""
    cls = moore(trans, acc)
    # representative per class
    rep = {}
    for i, c in enumerate(cls):
        rep.setdefault(c, i)
    # BFS renumber from class of state 0
    num = {cls[0]: 0}
    order = [cls[0]]
    dq = deque([cls[0]])
    while dq:
        c = dq.popleft()
        for j in trans[rep[c]]:
            d = cls[j]
            if d not in num:
                num[d] = len(order)
                order.append(d)
                dq.append(d)
    ctrans = tuple(tuple(num[cls[j]] for j in trans[rep[c]]) for c in order)
    cacc = tuple(bool(acc[rep[c]]) for c in order)
    return (tuple(sigma), ctrans, cacc)


def canon_of(s, sigma=None):
    """Canonical minimal DFA of the language of a dfa/nfa snapshot over sigma (default its own)."""
    N = rnfa_of(s, sigma)
    trans, acc = determinize(N)
    return canon(trans, acc, N.sigma)


def canon_is_empty(c):
    return not any(c[2])


def canon_is_universal(c):
    return all(c[2])


def canon_words(c, n):
    """All words of length <= n accepted by a canonical DFA."""
    sigma, trans, acc = c
    out = set()
    layer = {0: ['']}
    if acc[0]:
        out.add('')
    for _ in range(n):
        nxt = {}
        for q, ws in layer.items():
            for k, a in enumerate(sigma):
                t = trans[q][k]
                lst = nxt.setdefault(t, [])
                for w in ws:
                    lst.append(w + a)
        layer = nxt
        for q, ws in layer.items():
            if acc[q]:
                out.update(ws)
    return out


def canon_distinguishing_word(c1, c2):
    """Shortest word in the symmetric difference of two canonical DFAs over the same sigma (None if equal)."""
    if c1[0] != c2[0]:
        return None
    sigma = c1[0]
    seen = {(0, 0)}
    dq = deque([((0, 0), '')])
    while dq:
        (p, q), w = dq.popleft()
        if c1[2][p] != c2[2][q]:
            return w
        for k, a in enumerate(sigma):
            t = (c1[1][p][k], c2[1][q][k])
            if t not in seen:
                seen.add(t)
                dq.append((t, w + a))
    return None


# ------------------------------------------------------------------ DFA structure facts

def dfa_tables(s):
    """(states list in snapshot order, trans rows in sorted-sigma order, acc list, q0 index)."""
    idx = {q: i for i, q in enumerate(s['Q'])}
    sig = sorted(s['Sigma'])
    col = {a: k for k, a in enumerate(sig)}
    rows = [[None] * len(sig) for _ in s['Q']]
    for q, a, q1 in s['delta']:
        rows[idx[q]][col[a]] = idx[q1]
    F = set(s['F'])
    acc = [q in F for q in s['Q']]
    return s['Q'], [tuple(r) for r in rows], acc, idx[s['q0']]


def reachable(rows, q0):
    seen = {q0}
    stack = [q0]
    while stack:
        q = stack.pop()
        for t in rows[q]:
            if t not in seen:
                seen.add(t)
                stack.append(t)
    return seen


def nerode_counts(s):
    """(#classes among all states, #classes among reachable states, #reachable, all pairwise distinguishable?)"""
    _, rows, acc, q0 = dfa_tables(s)
    cls = moore(rows, acc)
    reach = reachable(rows, q0)
    return len(set(cls)), len({cls[i] for i in reach}), len(reach), len(set(cls)) == len(rows)


# formulation B: table filling, for the self-test only
def nerode_counts_table(s):
    _, rows, acc, q0 = dfa_tables(s)
    n = len(rows)
    dist = [[acc[i] != acc[j] for j in range(n)] for i in range(n)]
    changed = True
    while changed:
        changed = False
        for i in range(n):
            for j in range(n):
                if not dist[i][j]:
                    for k in range(len(rows[i])):
                        if dist[rows[i][k]][rows[j][k]]:
                            dist[i][j] = True
                            changed = True
                            break
    def count(states):
        reps = []
        for i in states:
            if all(dist[i][r] for r in reps):
                reps.append(i)
        return len(reps)
    reach = sorted(reachable(rows, q0))
    return count(range(n)), count(reach), len(reach), count(range(n)) == n


# formulation B of language equality: bounded enumeration through RNFA.accepts
def words_upto(sigma, n):
    out = ['']
    layer = ['']
    for _ in range(n):
        layer = [w + a for w in layer for a in sigma]
        out.extend(layer)
    return out


def lang_upto(s, n, sigma=None):
    N = rnfa_of(s, sigma)
    return {w for w in words_upto(N.sigma, n) if N.accepts(w)}


# ------------------------------------------------------------------ reference constructions on NFA snapshots

def ref_union(c1, c2):
    """Canonical DFA of L1 u L2 from two canonical DFAs over the same sigma (product BFS)."""
    return _product(c1, c2, lambda x, y: x or y)


def _product(c1, c2, f):
    assert c1[0] == c2[0]
    sigma = c1[0]
    index = {(0, 0): 0}
    order = [(0, 0)]
    dq = deque([(0, 0)])
    trans = []
    while dq:
        p, q = dq.popleft()
        row = []
        for k in range(len(sigma)):
            t = (c1[1][p][k], c2[1][q][k])
            if t not in index:
                index[t] = len(order)
                order.append(t)
                dq.append(t)
            row.append(index[t])
        trans.append(tuple(row))
    acc = [f(c1[2][p], c2[2][q]) for p, q in order]
    return canon(trans, acc, sigma)


def _rnfa_of_canon(c):
    sigma, trans, acc = c
    tr = {}
    for i, row in enumerate(trans):
        for k, a in enumerate(sigma):
            tr[(i, a)] = {row[k]}
    return RNFA(len(trans), sigma, tr, {}, 0, {i for i, x in enumerate(acc) if x})


def ref_concat(c1, c2):
    assert c1[0] == c2[0]
    A, B = _rnfa_of_canon(c1), _rnfa_of_canon(c2)
    off = A.n
    tr = dict(A.trans)
    for (q, a), T in B.trans.items():
        tr[(q + off, a)] = {t + off for t in T}
    eps = {q: {B.q0 + off} for q in A.F}
    N = RNFA(A.n + B.n, A.sigma, tr, eps, A.q0, {q + off for q in B.F})
    t, acc = determinize(N)
    return canon(t, acc, N.sigma)


def ref_star(c):
    A = _rnfa_of_canon(c)
    new = A.n
    eps = {q: {A.q0} for q in A.F}
    eps[new] = {A.q0}
    N = RNFA(A.n + 1, A.sigma, dict(A.trans), eps, new, set(A.F) | {new})
    t, acc = determinize(N)
    return canon(t, acc, N.sigma)
