"""Specs <-> library objects.

A *spec* is plain JSON data (lists of strings).  `build(spec)` constructs the
real gambatools object, inserting elements in the order the spec lists them (the
insertion history of a set is part of the schedule).  `snapshot(obj)` is the
inverse up to order: it returns canonical, order-free data, so two snapshots are
equal iff the observable content is equal.  Reference models only ever see
snapshots / specs, never library objects.
"""
from collections import defaultdict

from gambatools.dfa import DFA
from gambatools.nfa import NFA
from gambatools.pda import PDA
from gambatools.tm import TM
from gambatools.cfg import CFG, Rule, Alternative, Variable, Terminal
from gambatools import regexp as rx


# ------------------------------------------------------------------ build

def build(spec):
    k = spec['kind']
    return _BUILD[k](spec)


def _set(xs):
    s = set()
    for x in xs:
        s.add(x)
    return s


def _fresh(x):
    """An equal but distinct str object (what a parser produces for every occurrence of a name)."""
    return x.encode('utf-8').decode('utf-8') if isinstance(x, str) and len(x) > 1 else x


def build_dfa(spec):
    Q = _set(spec['Q'])
    Sigma = _set(spec['Sigma'])
    delta = {}
    for q, a, q1 in spec['delta']:
        delta[_fresh(q), a] = _fresh(q1)
    return DFA(Q, Sigma, delta, spec['q0'], _set(spec['F']))


def build_nfa(spec):
    Q = _set(spec['Q'])
    Sigma = _set(spec['Sigma'])
    if spec.get('dd', True):
        delta = defaultdict(set)
    else:
        delta = {}
    shared = {}
    for q, a, T in spec['delta']:
        if spec.get('alias'):
            # legal but unusual: equal target sets are ONE set object (e.g. built with dict.fromkeys)
            key = tuple(sorted(T))
            if key not in shared:
                shared[key] = _set(T)
            delta[q, a] = shared[key]
        else:
            delta[q, a] = _set(T)
    for q, a in spec.get('stray_keys', ()):
        delta[q, a] = set()
    if 'empty_keys' in spec:
        # exact reconstruction of a live object's mapping (see rebuild_hints): keys with empty target sets as they were
        for q, a in spec['empty_keys']:
            if (q, a) not in delta:
                delta[q, a] = set()
    elif not spec.get('dd', True):
        # a plain dict must be total for the library's N.delta[q, eps] reads
        for q in spec['Q']:
            for a in list(spec['Sigma']) + [spec['eps']]:
                if (q, a) not in delta:
                    delta[q, a] = set()
    return NFA(Q, Sigma, delta, spec['q0'], _set(spec['F']), spec['eps'])


def build_pda(spec):
    # a PDA put together in code may carry a plain dict that has only the keys of its transitions: the library reads
    # PDA transition maps through .items() only, so that is a legal argument everywhere
    delta = defaultdict(set) if spec.get('dd', True) else {}
    for p, a, u in spec.get('stray_keys', ()):
        pass    # a corrupted object is never rebuilt with its stray entries: constructors would refuse it
    shared = {}
    for p, a, u, T in spec['delta']:
        if spec.get('alias'):
            key = tuple(sorted(map(tuple, T)))
            if key not in shared:
                shared[key] = _set(tuple(t) for t in T)
            delta[p, a, u] = shared[key]
        else:
            delta[p, a, u] = _set(tuple(t) for t in T)
    return PDA(_set(spec['Q']), _set(spec['Sigma']), _set(spec['Gamma']), delta, spec['q0'], _set(spec['F']), spec['eps'])


def build_tm(spec):
    delta = {}
    for p, a, q, b, d in spec['delta']:
        delta[p, a] = (q, b, d)
    return TM(_set(spec['Q']), _set(spec['Sigma']), _set(spec['Gamma']), delta, spec['q0'], spec['acc'], spec['rej'], spec['blank'])


def _sym(s):
    name, tag = s
    return Variable(name) if tag == 'V' else Terminal(name)


def build_cfg(spec):
    V = _set(Variable(v) for v in spec['V'])
    Sigma = _set(Terminal(t) for t in spec['Sigma'])
    R = [Rule(Variable(A), Alternative([_sym(s) for s in rhs])) for A, rhs in spec['R']]
    return CFG(V, Sigma, R, Variable(spec['S']), Terminal(spec.get('eps', 'ε')))


def build_regexp(spec):
    return _rx(spec['tree'])


def _rx(t):
    op = t[0]
    if op == '0':
        return rx.Zero()
    if op == '1':
        return rx.One()
    if op == 'sym':
        return rx.Symbol(t[1])
    if op == 'star':
        return rx.Iteration(_rx(t[1]))
    if op == 'sum':
        return rx.Sum(_rx(t[1]), _rx(t[2]))
    if op == 'cat':
        return rx.Concat(_rx(t[1]), _rx(t[2]))
    raise ValueError(t)


def build_words(spec):
    return _set(spec['words'])


_BUILD = {'dfa': build_dfa, 'nfa': build_nfa, 'pda': build_pda, 'tm': build_tm, 'cfg': build_cfg,
          'regexp': build_regexp, 'words': build_words, 'set': lambda spec: _set(spec['items'])}


# ------------------------------------------------------------------ snapshot

class NotSnapshotable(Exception):
    pass


def _s(x):
    if not isinstance(x, str):
        raise NotSnapshotable('non-string %r' % (x,))
    return str(x)


def snapshot(obj):
    """Canonical order-free plain data for any library object (or plain value)."""
    if isinstance(obj, DFA):
        return {'kind': 'dfa', 'Q': sorted(_s(q) for q in obj.Q), 'Sigma': sorted(_s(a) for a in obj.Sigma),
                'delta': sorted([_s(q), _s(a), _s(q1)] for (q, a), q1 in obj.delta.items()),
                'q0': _s(obj.q0), 'F': sorted(_s(q) for q in obj.F)}
    if isinstance(obj, NFA):
        snap = {'kind': 'nfa', 'Q': sorted(_s(q) for q in obj.Q), 'Sigma': sorted(_s(a) for a in obj.Sigma),
                'delta': sorted([_s(q), _s(a), sorted(_s(t) for t in T)] for (q, a), T in obj.delta.items() if len(T) > 0),
                'q0': _s(obj.q0), 'F': sorted(_s(q) for q in obj.F), 'eps': _s(obj.epsilon)}
        # an empty entry is not content (a defaultdict grows when it is read) - unless its key names a state or a
        # symbol the automaton does not have: the class invariant looks at every key, so that IS observable
        stray = sorted([str(q), str(a)] for (q, a), T in obj.delta.items()
                       if len(T) == 0 and (q not in obj.Q or (a not in obj.Sigma and a != obj.epsilon)))
        if stray:
            snap['stray_keys'] = stray
        return snap
    if isinstance(obj, PDA):
        snap = {'kind': 'pda', 'Q': sorted(_s(q) for q in obj.Q), 'Sigma': sorted(_s(a) for a in obj.Sigma),
                'Gamma': sorted(_s(a) for a in obj.Gamma),
                'delta': sorted([_s(p), _s(a), _s(u), sorted([_s(q), _s(v)] for (q, v) in T)]
                                for (p, a, u), T in obj.delta.items() if len(T) > 0),
                'q0': _s(obj.q0), 'F': sorted(_s(q) for q in obj.F), 'eps': _s(obj.epsilon)}
        stray = sorted([str(p), str(a), str(u)] for (p, a, u), T in obj.delta.items()
                       if len(T) == 0 and (p not in obj.Q or (a not in obj.Sigma and a != obj.epsilon) or (u not in obj.Gamma and u != obj.epsilon)))
        if stray:
            snap['stray_keys'] = stray
        return snap
    if isinstance(obj, TM):
        return {'kind': 'tm', 'Q': sorted(_s(q) for q in obj.Q), 'Sigma': sorted(_s(a) for a in obj.Sigma),
                'Gamma': sorted(_s(a) for a in obj.Gamma),
                'delta': sorted(_tm_entry(p, a, t) for (p, a), t in obj.delta.items()),
                'q0': _s(obj.q0), 'acc': _s(obj.q_accept), 'rej': _s(obj.q_reject), 'blank': _s(obj.blank)}
    if isinstance(obj, CFG):
        return {'kind': 'cfg', 'V': sorted(_s(v) for v in obj.V), 'Sigma': sorted(_s(t) for t in obj.Sigma),
                'R': [[_s(r.variable), [_tag(s) for s in r.alternative.symbols]] for r in obj.R],
                'S': _s(obj.S), 'eps': _s(obj.epsilon)}
    if isinstance(obj, rx.Regexp):
        return {'kind': 'regexp', 'tree': _rxsnap(obj)}
    if isinstance(obj, (set, frozenset)):
        try:
            return {'kind': 'set', 'items': sorted(_plain(x) for x in obj)}
        except TypeError:
            return {'kind': 'set', 'items': sorted((repr(_plain(x)) for x in obj))}
    return {'kind': 'value', 'value': _plain(obj)}


def _tm_entry(p, a, t):
    if isinstance(t, tuple) and len(t) == 3 and all(isinstance(x, str) for x in t):
        return [_s(p), _s(a), str(t[0]), str(t[1]), str(t[2])]
    return [_s(p), _s(a), '<not a transition>', repr(_plain(t)), '']      # content a correct machine never has


def _tag(s):
    if isinstance(s, Variable):
        return [str(s), 'V']
    if isinstance(s, Terminal):
        return [str(s), 'T']
    return [str(s), '?']


def _rxsnap(r):
    if isinstance(r, rx.Zero):
        return ['0']
    if isinstance(r, rx.One):
        return ['1']
    if isinstance(r, rx.Symbol):
        return ['sym', _s(r.symbol)]
    if isinstance(r, rx.Iteration):
        return ['star', _rxsnap(r.operand)]
    if isinstance(r, rx.Sum):
        return ['sum', _rxsnap(r.left), _rxsnap(r.right)]
    if isinstance(r, rx.Concat):
        return ['cat', _rxsnap(r.left), _rxsnap(r.right)]
    raise NotSnapshotable(repr(r))


def _plain(x):
    """Plain JSON-able rendering of nested python values (tuples -> lists, sets -> sorted)."""
    if x is None or isinstance(x, (bool, int, float)):
        return x
    if isinstance(x, str):
        return str(x)
    if isinstance(x, (list, tuple)):
        return [_plain(y) for y in x]
    if isinstance(x, (set, frozenset)):
        try:
            return sorted(_plain(y) for y in x)
        except TypeError:
            return sorted((repr(_plain(y)) for y in x))
    if isinstance(x, dict):
        return sorted([[repr(_plain(k)), _plain(v)] for k, v in x.items()])
    if hasattr(x, 'q') and hasattr(x, 'stack'):  # PDAState
        return [str(x.q), [str(s) for s in x.stack]]
    if isinstance(x, (DFA, NFA, PDA, TM, CFG, rx.Regexp)):
        return snapshot(x)
    return repr(x)


def rebuild_hints(obj):
    """What a snapshot deliberately leaves out but an exact reconstruction of "equal arguments" needs: whether the
    transition map is a defaultdict, and which keys of a plain dict hold empty target sets."""
    if isinstance(obj, NFA):
        dd = isinstance(obj.delta, defaultdict)
        h = {'dd': dd}
        if not dd:
            h['empty_keys'] = sorted([str(q), str(a)] for (q, a), T in obj.delta.items() if len(T) == 0)
        return h
    if isinstance(obj, PDA):
        return {'dd': isinstance(obj.delta, defaultdict)}
    return {}


def kind_of(obj):
    for cls, k in ((DFA, 'dfa'), (NFA, 'nfa'), (PDA, 'pda'), (TM, 'tm'), (CFG, 'cfg'), (rx.Regexp, 'regexp')):
        if isinstance(obj, cls):
            return k
    if isinstance(obj, (set, frozenset)):
        return 'set'
    return 'value'


def order_fingerprint(obj, rank):
    """The order in which the object's own sets iterate in *this* process, expressed in
    canonical (pre-renaming) indices.  Touches only container iteration, never library code."""
    out = []
    for attr, group in (('Q', 'Q'), ('Sigma', 'Sigma'), ('Gamma', 'Sigma'), ('F', 'Q'), ('V', 'V')):
        s = getattr(obj, attr, None)
        if isinstance(s, (set, frozenset)):
            r = rank.get(group, {})
            out.append([r.get(str(x), -1) for x in s])
    return out
