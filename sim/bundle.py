"""Cross-replica part of the simulation (C19): the same session spec is executed by several replicas — fresh
interpreters with different PYTHONHASHSEED, one more with logging on — and their per-step outcome digests must agree.
A disagreement is minimised (ddmin over the step list, always re-executing in the *same two* interpreters, kept alive
as zygote servers) and confirmed from its replay file in two more fresh interpreters before it is reported.
"""
import os
import sys
import json
import subprocess

from sim import coordinator as co
from props.c19_meta import outcomes_differ

SHRINK_EVALS = 120


class Server:
    """A fresh interpreter with a chosen hash seed that evaluates sessions on request (each in a pristine fork)."""

    def __init__(self, pid, hashseed):
        self.hashseed = hashseed
        self.p = subprocess.Popen([co.PY, co.WORKER, 'serve', pid], env=co.worker_env(hashseed), cwd='/',
                                  stdin=subprocess.PIPE, stdout=subprocess.PIPE, stderr=subprocess.DEVNULL, text=True, encoding='utf-8')
        hello = self.p.stdout.readline()
        if not hello:
            raise RuntimeError('server for hash seed %s did not start' % hashseed)

    def run(self, case):
        self.p.stdin.write(json.dumps(case, ensure_ascii=False) + '\n')
        self.p.stdin.flush()
        line = self.p.stdout.readline()
        if not line:
            return {'harness_error': 'server died'}
        return json.loads(line)

    def close(self):
        try:
            self.p.stdin.close()
            self.p.wait(timeout=10)
        except Exception:
            self.p.kill()


def _with_logging(case, flag):
    c = dict(case)
    c['logging'] = bool(flag)
    return c


def disagreement(case, site, ra, rb):
    """Index of the first step with operation `site` whose digests differ between two replica results (or None)."""
    sa, sb = ra.get('steps'), rb.get('steps')
    if sa is None or sb is None or len(sa) != len(sb):
        return None
    for i, st in enumerate(case['steps']):
        name = st['name'] if st['op'] == 'text_check' else st['op']
        if name == site and outcomes_differ(name, sa[i], sb[i], ra['argsigs'][i], rb['argsigs'][i]):
            return i
    return None


def minimise(pid, case, site, rep_a, rep_b):
    import importlib
    # the shrinker lives with the property but needs no gambatools: import lazily through a tiny shim
    drop = _drop_step
    A, B = Server(pid, rep_a[0]), Server(pid, rep_b[0])
    try:
        def still(c):
            ra, rb = A.run(_with_logging(c, rep_a[1])), B.run(_with_logging(c, rep_b[1]))
            if 'harness_error' in ra or 'harness_error' in rb or 'harness_timeout' in ra or 'harness_timeout' in rb:
                return None
            return disagreement(c, site, ra, rb)
        evals = 0
        if still(case) is None:
            return case, 0, False
        improved = True
        while improved and evals < SHRINK_EVALS:
            improved = False
            n = len(case['steps'])
            cands = []
            for lo, hi in ((n // 2, n), (0, n // 2), (n // 4, n // 2), (n // 2, 3 * n // 4)):
                c = case
                for i in range(hi - 1, lo - 1, -1):
                    if i < len(c['steps']) and c['steps'][i]['op'] != 'make':
                        c = drop(c, i)
                if len(c['steps']) < n:
                    cands.append(c)
            cands += [drop(case, i) for i in range(n - 1, -1, -1)]
            for c in cands:
                evals += 1
                if evals > SHRINK_EVALS:
                    break
                if still(c) is not None:
                    case = c
                    improved = True
                    break
        return case, evals, True
    finally:
        A.close()
        B.close()


def _drop_step(case, idx):
    import copy
    steps = case['steps']
    dead = set()
    if 'id' in steps[idx]:
        dead.add(steps[idx]['id'])
    new, remap = [], {}
    for i, s in enumerate(steps):
        if i == idx or any(a in dead for a in s.get('args', ())):
            if 'id' in s:
                dead.add(s['id'])
            continue
        remap[i] = len(new)
        new.append(s)
    c = copy.deepcopy({k: v for k, v in case.items() if k != 'steps'})
    c['steps'] = copy.deepcopy(new)
    c['solo'] = []       # solo re-executions are an intra-replica matter
    return c


def confirm(pid, rep):
    """Fresh interpreters, same hash seeds: does the minimised session still disagree at that site?"""
    a, b = rep['replicas']
    A, B = Server(pid, a['hashseed']), Server(pid, b['hashseed'])
    try:
        ra, rb = A.run(_with_logging(rep['case'], a['logging'])), B.run(_with_logging(rep['case'], b['logging']))
    finally:
        A.close()
        B.close()
    i = disagreement(rep['case'], rep['site'], ra, rb)
    return i, ra, rb


def compare_replicas(pid, seed, tier, results, fatal, out):
    """Returns confirmed cross-replica violations as (violation-record, replay path)."""
    by_round = {}
    for d in results:
        by_round.setdefault(d['round'], []).append(d)
    cands = {}
    compared = 0
    for r, reps in sorted(by_round.items()):
        plain = [d for d in reps if not d['logging']]
        logrep = [d for d in reps if d['logging']]
        if len(plain) < 2:
            continue
        ref = plain[0]
        # regenerate the session specs of this round (pure function of seed and round): ask a worker for them
        sessions = None
        for other, cls in [(d, 'hashseed-dependent-result') for d in plain[1:]] + [(d, 'logging-dependent-result') for d in logrep]:
            base = ref if cls == 'hashseed-dependent-result' else next((p for p in plain if p['hashseed'] == other['hashseed']), ref)
            n = min(len(base['step_digests']), len(other['step_digests']))
            for si in range(n):
                sa, sb = base['step_digests'][si], other['step_digests'][si]
                ga, gb = base['step_argsigs'][si], other['step_argsigs'][si]
                if sa is None or sb is None:
                    continue        # that session failed in one replica at harness level (reported separately)
                compared += min(len(sa), len(sb))
                if sa == sb:
                    continue
                if sessions is None:
                    sessions = load_sessions(pid, seed, r, tier)
                case = sessions[si]
                for j in range(min(len(sa), len(sb))):
                    st = case['steps'][j]
                    site = st['name'] if st['op'] == 'text_check' else st['op']
                    if outcomes_differ(site, sa[j], sb[j], ga[j], gb[j]):
                        notes = sorted(set(base['step_notes'][si].get(str(j), [])) | set(other['step_notes'][si].get(str(j), [])))
                        key = (cls, site, tuple(notes))
                        rec = cands.setdefault(key, {'cls': cls, 'site': site, 'tags': notes, 'seen': 0, 'case': case, 'step': j,
                                                     'a': (base['hashseed'], base['logging']), 'b': (other['hashseed'], other['logging']),
                                                     'digests': [sa[j], sb[j]], 'round': r})
                        rec['seen'] += 1
                        break    # later differences of the same session may be consequences of the first
    confirmed = []
    os.makedirs(os.path.join(co.OUT, 'replays'), exist_ok=True)
    for k, key in enumerate(sorted(cands)):
        c = cands[key]
        small, evals, ok = minimise(pid, c['case'], c['site'], c['a'], c['b'])
        path = os.path.join(co.OUT, 'replays', '%s-%d-x%d.json' % (pid, seed, k))
        rep = {'property': pid, 'verif_seed': seed, 'tier': tier, 'round': c['round'], 'python': co.PY,
               'cls': c['cls'], 'site': c['site'], 'tags': c['tags'],
               'replicas': [{'hashseed': str(c['a'][0]), 'logging': c['a'][1]}, {'hashseed': str(c['b'][0]), 'logging': c['b'][1]}],
               'case': small, 'shrink_evals': evals, 'original_steps': len(c['case']['steps']), 'detail': {'digests_at_first_sighting': c['digests']}}
        with open(path, 'w', encoding='utf-8') as f:
            json.dump(rep, f, ensure_ascii=False, indent=1, sort_keys=True)
        i, ra, rb = confirm(pid, rep)
        if i is None:
            fatal.append('HARNESS-ERROR cross-replica candidate %s/%s did not reproduce from %s' % (c['cls'], c['site'], path))
            continue
        st = small['steps'][i]
        confirmed.append(({'cls': c['cls'], 'site': c['site'], 'tags': c['tags'], 'seen': c['seen'], 'case': small, 'round': c['round'],
                           'hashseed': '%s/%s' % (c['a'][0], c['b'][0]),
                           'detail': {'step': st, 'digest_a': ra['steps'][i], 'digest_b': rb['steps'][i], 'replicas': rep['replicas']}}, path))
    print('%s: %d step outcomes compared across replicas, %d disagreement classes' % (pid, compared, len(cands)), file=out)
    return confirmed


def load_sessions(pid, seed, r, tier):
    res = co.run_worker(['cases', pid, seed, r, tier], 0, 300)
    if 'harness_fatal' in res:
        raise RuntimeError(res['harness_fatal'])
    return res['cases']


def replay(rep, path, out=sys.stdout):
    i, ra, rb = confirm(rep['property'], rep)
    if i is None:
        print('not reproduced', file=out)
        return co.EXIT_OK
    print('REPRODUCED class=%s site=%s step=%d digests %s vs %s under %s' % (rep['cls'], rep['site'], i, ra['steps'][i], rb['steps'][i], rep['replicas']), file=out)
    print('VIOLATION property=%s replay=%s' % (rep['property'], path), file=out)
    return co.EXIT_VIOLATION
