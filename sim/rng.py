"""One integer decides everything: SHA-256 counter streams -> random.Random.

stream(seed, 'C04', 'round', 3) is a pure function of its arguments; nothing in
this module reads a clock, a pid, or iterates an unordered container.
"""
import hashlib
import random


def _digest(parts):
    h = hashlib.sha256()
    for p in parts:
        h.update(repr(p).encode('utf-8'))
        h.update(b'\x00')
    return h.digest()


def stream(*parts) -> random.Random:
    return random.Random(int.from_bytes(_digest(parts), 'big'))


def u32(*parts) -> int:
    return int.from_bytes(_digest(parts)[:4], 'big')


def hexdigest(obj) -> str:
    """Short stable digest of a JSON-able object (canonical dump)."""
    import json
    s = json.dumps(obj, sort_keys=True, ensure_ascii=False, separators=(',', ':'))
    return hashlib.sha256(s.encode('utf-8')).hexdigest()[:16]
