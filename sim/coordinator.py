"""Coordinator: derives rounds from VERIF_SEED, spawns fresh interpreters (one hash seed each), collects their
JSON, confirms every candidate violation from its minimised replay file in yet another fresh interpreter,
matches known findings, writes evidence, decides the exit code.  Makes no library calls itself.
"""
import os
import sys
import json
import time
import subprocess
import concurrent.futures as cf

from sim import rng as simrng

VERIF = os.path.dirname(os.path.dirname(os.path.abspath(__file__)))
REPO = os.environ.get('VERIF_REPO', '/repo')
PY = os.environ.get('VERIF_PYTHON', '/venv/bin/python')
WORKER = os.path.join(VERIF, 'sim', 'worker.py')
OUT = os.environ.get('VERIF_OUT', VERIF)     # evidence/ and replays/ live here (scratch experiments redirect it)
NPROC = int(os.environ.get('VERIF_JOBS', str(min(16, os.cpu_count() or 4))))

EXIT_OK, EXIT_VIOLATION, EXIT_HARNESS = 0, 1, 2


def worker_env(hashseed):
    env = dict(os.environ)
    env['PYTHONHASHSEED'] = str(hashseed)
    env['PYTHONPATH'] = os.path.join(REPO, 'src') + os.pathsep + VERIF
    env['PYTHONDONTWRITEBYTECODE'] = '1'
    env['GAMBATOOLS_VERIF'] = '1'
    env.pop('PYTHONSTARTUP', None)
    return env


def hashseed_for(seed, pid, rnd):
    if rnd == 0:
        return 0
    if rnd == 1:
        return 1
    return simrng.u32(seed, pid, 'hashseed', rnd)


def run_worker(args, hashseed, timeout, logging=False):
    env = worker_env(hashseed)
    if logging:
        env['VERIF_REPLICA_LOGGING'] = '1'
    try:
        p = subprocess.run([PY, WORKER] + [str(a) for a in args], env=env, cwd='/',
                           stdout=subprocess.PIPE, stderr=subprocess.PIPE, timeout=timeout)
    except subprocess.TimeoutExpired:
        return {'harness_fatal': 'HARNESS-TIMEOUT worker %s (wall %ss)' % (args, timeout)}
    if p.returncode != 0:
        return {'harness_fatal': 'HARNESS-ERROR worker %s exit %s: %s' % (args, p.returncode, p.stderr.decode('utf-8', 'replace')[-2000:])}
    try:
        return json.loads(p.stdout.decode('utf-8'))
    except Exception as e:
        return {'harness_fatal': 'HARNESS-ERROR worker %s bad output: %s / %s' % (args, e, p.stderr.decode('utf-8', 'replace')[-1000:])}


def load_known():
    path = os.path.join(VERIF, 'known_findings.json')
    if not os.path.exists(path):
        return []
    with open(path, encoding='utf-8') as f:
        return json.load(f).get('findings', [])


def match_known(known, pid, v):
    """A listed finding matches by (property, site, class) and, when given, by every tag it names."""
    for k in known:
        if k.get('status', 'open') != 'open':
            continue   # 'fixed' entries suppress nothing
        if k['property'] != pid or k['site'] != v['site'] or k['cls'] != v['cls']:
            continue
        need = set(k.get('tags', []))
        if need <= set(v.get('tags', [])):
            return k
    return None


def plan(pid, tier):
    from props import plans
    return plans.PLANS[pid][tier]


def replica_plan(pid, seed, r, pl):
    """(hashseed, logging) per replica of round r.  Ordinary properties have one replica per round."""
    k = pl.get('replicas', 1)
    if k == 1:
        return [(hashseed_for(seed, pid, r), False)]
    hs = []
    for i in range(k):
        if r == 0 and i < 2:
            hs.append(i)
        else:
            hs.append(simrng.u32(seed, pid, 'hashseed', r, i))
    reps = [(h, False) for h in hs]
    if pl.get('logging_replica'):
        reps.append((hs[0], True))
    return reps


def run_check(pid, tier, seed, out=sys.stdout):
    t0 = time.time()
    pl = plan(pid, tier)
    rounds = pl['rounds']
    wall_cap = pl['wall_cap_s']
    round_timeout = pl.get('round_timeout_s', 1800)
    print('check %s tier=%s VERIF_SEED=%d rounds=%d jobs=%d python=%s repo=%s' % (pid, tier, seed, rounds, NPROC, PY, REPO), file=out)
    results = []
    skipped = 0
    fatal = []
    with cf.ThreadPoolExecutor(NPROC) as ex:
        futs = {}
        for r in range(rounds):
            for k, (hs, logging) in enumerate(replica_plan(pid, seed, r, pl)):
                futs[ex.submit(_guarded_round, pid, seed, r, tier, hs, logging, t0, wall_cap, round_timeout)] = (r, k, logging)
        for f in cf.as_completed(futs):
            res = f.result()
            r, k, logging = futs[f]
            if res is None:
                skipped += 1
            elif 'harness_fatal' in res:
                fatal.append(res['harness_fatal'])
            else:
                res['replica'] = k
                res['logging'] = logging
                results.append(res)
    results.sort(key=lambda d: (d['round'], d['replica']))
    extra = []
    if pl.get('replicas', 1) > 1:
        from sim import bundle
        extra = bundle.compare_replicas(pid, seed, tier, results, fatal, out)
    return finish(pid, tier, seed, results, skipped, fatal, t0, out, extra)


def _guarded_round(pid, seed, r, tier, hs, logging, t0, wall_cap, round_timeout):
    if time.time() - t0 > wall_cap:
        return None
    return run_worker(['round', pid, seed, r, tier], hs, round_timeout, logging)


def finish(pid, tier, seed, results, skipped, fatal, t0, out, extra=()):
    from props import plans
    meta = plans.PLANS[pid]
    known = load_known()
    keys, scheds = set(), set()
    probes, hist = {}, {}
    cases = ticks = 0
    harness = []
    cands = {}
    counts = {}
    hashseeds = []
    samples = []
    for d in results:
        cases += d['cases']
        ticks += d['ticks']
        keys.update(d['keys_nontrivial'])
        scheds.update(d['scheds'])
        hashseeds.append(d['hashseed'])
        for k, v in d['probes'].items():
            probes[k] = probes.get(k, 0) + v
        for k, v in d['hist'].items():
            hist[k] = max(hist.get(k, 0), v) if k.startswith('max:') else hist.get(k, 0) + v
        harness.extend(d['harness'])
        samples.extend(d['samples'])
        for c, s, n in d.get('violation_counts', []):
            counts[(c, s)] = counts.get((c, s), 0) + n
        for v in d['violations']:
            key = (v['cls'], v['site'], tuple(sorted(v.get('tags', []))))
            cur = cands.get(key)
            if cur is None or len(json.dumps(v['case'])) < len(json.dumps(cur['case'])):
                cands[key] = v
    for h in harness[:5]:
        fatal.append('HARNESS-ERROR in case: %s' % json.dumps(h, ensure_ascii=False)[:1500])

    # confirm candidates from their replay files, in fresh interpreters
    violations, knowns, unconfirmed = [], [], []
    os.makedirs(os.path.join(OUT, 'replays'), exist_ok=True)
    for k, key in enumerate(sorted(cands)):
        v = cands[key]
        path = os.path.join(OUT, 'replays', '%s-%d-%d.json' % (pid, seed, k))
        rep = {'property': pid, 'verif_seed': seed, 'tier': tier, 'round': v['round'], 'hashseed': v['hashseed'],
               'python': PY, 'cls': v['cls'], 'site': v['site'], 'tags': v.get('tags', []), 'detail': v['detail'],
               'case': v['case'], 'original_case': v.get('orig_case'), 'shrink_evals': v.get('shrink_evals')}
        with open(path, 'w', encoding='utf-8') as f:
            json.dump(rep, f, ensure_ascii=False, indent=1, sort_keys=True)
        conf = run_worker(['replay', path], v['hashseed'], 300)
        if conf.get('reproduced'):
            kf = match_known(known, pid, v)
            if kf:
                knowns.append((kf, v, path))
            else:
                violations.append((v, path))
        else:
            unconfirmed.append((v, path, conf))
    for v, path in extra:
        kf = match_known(known, pid, v)
        if kf:
            knowns.append((kf, v, path))
        else:
            violations.append((v, path))
        counts[(v['cls'], v['site'])] = counts.get((v['cls'], v['site']), 0) + v.get('seen', 1)
    for kf, v, path in knowns:
        print('KNOWN-FINDING: property=%s %s [%s at %s] e.g. replay=%s' % (pid, kf['what'], v['cls'], v['site'], path), file=out)
    for v, path in violations:
        print('  class=%s site=%s tags=%s hashseed=%s seen=%d detail=%s' % (
            v['cls'], v['site'], v.get('tags', []), v.get('hashseed'), counts.get((v['cls'], v['site']), 0),
            json.dumps(v['detail'], ensure_ascii=False)[:400]), file=out)
        print('VIOLATION property=%s replay=%s' % (pid, path), file=out)
    for v, path, conf in unconfirmed:
        fatal.append('HARNESS-ERROR candidate %s/%s did not reproduce from %s: %s' % (v['cls'], v['site'], path, json.dumps(conf)[:500]))

    wall = time.time() - t0
    used = hist.get('max:tick_budget_used_permille', 0)
    if used > 250:
        print('WARNING: some call used %d/1000 of its tick budget (margin below 4x)' % used, file=out)
    zero = [p for p in meta.get('expected_probes', []) if probes.get(p, 0) == 0]
    for p in zero:
        print('WARNING: probe %s never fired in this run' % p, file=out)
    ev = {
        'property_id': pid, 'tier': tier, 'seed': seed, 'level': 'exploration', 'wall_s': round(wall, 2),
        'violations': len(violations),
        'coverage': {
            'evaluations': cases,
            'distinct_nontrivial': len(keys),
            'rule': meta['rule'],
            'samples': samples[:4],
            'rounds_run': len(results), 'rounds_skipped_wall_cap': skipped,
            'hashseeds_used': hashseeds,
            'distinct_schedules': len(scheds),
            'schedule_measure': meta['schedule_measure'],
            'simulated_ticks_total': ticks,
            'runs_per_hour': int(cases / wall * 3600) if wall > 0 else 0,
            'hashseeds_per_hour': int(len(results) / wall * 3600) if wall > 0 else 0,
            'probes': probes, 'probes_never_fired': zero,
            'histogram': hist,
            'violation_classes_seen': [[c, s, n] for (c, s), n in sorted(counts.items())],
            'known_findings_reproduced': [kf['id'] for kf, _, _ in knowns],
            'faults_injected': {},
            'faults_note': 'no fault kind is injected: the anchored code has no clock, I/O, thread or peer for a fault to act on '
                           '(DESIGN.md section 1); the simulated dimensions are hash seed, renaming/insertion order, call history, '
                           'ambient knobs and a tick clock' + ('; C19 also simulates the modification times of the answer files it writes (DESIGN.md 8.11)' if pid == 'C19' else ''),
            'components': {'real': ['all of gambatools under /repo/src (current working tree)', 'CPython set/dict ordering'],
                           'stub': ['sys.stdout replaced by an in-memory sink'] + (
                               ['answer files of the check_*_language_from_file checkers: written by the harness, modification times set from a simulated file clock (os.utime), the real clock is never read']
                               if pid == 'C19' else [])},
            'exhaustive': False,
        },
        'assumptions': meta['assumptions'],
    }
    os.makedirs(os.path.join(OUT, 'evidence'), exist_ok=True)
    with open(os.path.join(OUT, 'evidence', pid + '.json'), 'w', encoding='utf-8') as f:
        json.dump(ev, f, ensure_ascii=False, indent=1)
    print('%s: %d evaluations, %d distinct non-trivial, %d schedules, %d hash seeds, %d ticks, %.1fs; violations=%d known=%d harness=%d' % (
        pid, cases, len(keys), len(scheds), len(results), ticks, wall, len(violations), len(knowns), len(fatal)), file=out)
    if fatal:
        for m in fatal[:10]:
            print(m, file=out)
    if violations:
        return EXIT_VIOLATION
    if fatal:
        return EXIT_HARNESS
    return EXIT_OK


def replay(path, out=sys.stdout):
    path = os.path.abspath(path)
    with open(path, encoding='utf-8') as f:
        rep = json.load(f)
    if 'replicas' in rep:
        from sim import bundle
        return bundle.replay(rep, path, out)
    conf = run_worker(['replay', path], rep['hashseed'], 300)
    if 'harness_fatal' in conf:
        print(conf['harness_fatal'], file=out)
        return EXIT_HARNESS
    if conf.get('reproduced'):
        print('REPRODUCED class=%s site=%s hashseed=%s' % (rep['cls'], rep['site'], rep['hashseed']), file=out)
        print('VIOLATION property=%s replay=%s' % (rep['property'], path), file=out)
        return EXIT_VIOLATION
    print('not reproduced: %s' % json.dumps(conf.get('res'), ensure_ascii=False)[:800], file=out)
    return EXIT_OK
