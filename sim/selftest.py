"""./check selftest — (1) cross-check every reference model against its second formulation,
(2) determinism: same (VERIF_SEED, round, hash seed) twice => identical digests and tick counts;
    workload generation identical under different hash seeds,
(3) oracle output identical under different hash seeds.
Exit 0 = machinery trustworthy, 2 = harness defect (no property is judged here)."""
import os
import sys
import json
import time
import concurrent.futures as cf

from sim import rng as simrng


def _fail(msg):
    print('SELFTEST-FAIL: ' + msg)
    return 1


def oracle_crosschecks(seed=12345, n=400):
    """Runs in this process; imports only /verif/ref and /verif/gen (no gambatools)."""
    from ref import fa, regexp as rrx, cfg as rcfg, pda as rpda, iso
    from gen import fa as gfa, regexp as grx, cfg as gcfg, pda as gpda
    bad = 0
    R = simrng.stream(seed, 'selftest')
    # --- FA: canonical equality vs bounded enumeration; Moore vs table filling
    pool = []
    for i in range(n):
        a = gfa.abstract_nfa(R, 1, 4, 1, 2) if i % 2 else gfa.abstract_dfa(R, 1, 5, 1, 2)
        pool.append(a)
    for a in pool:
        c = fa.canon_of(a, sigma='ab')
        if fa.canon_words(c, 5) != fa.lang_upto(a, 5, sigma='ab'):
            bad += _fail('fa: canonical DFA words != NFA semantics for %s' % json.dumps(a))
        if a['kind'] == 'dfa' and fa.nerode_counts(a) != fa.nerode_counts_table(a):
            bad += _fail('fa: Moore vs table-filling class counts differ for %s' % json.dumps(a))
    for i in range(0, len(pool) - 1, 2):
        a, b = pool[i], pool[i + 1]
        ca, cb = fa.canon_of(a, sigma='ab'), fa.canon_of(b, sigma='ab')
        la, lb = fa.lang_upto(a, 7, sigma='ab'), fa.lang_upto(b, 7, sigma='ab')
        # |product| <= 32*32 but minimal DFAs here have <= 16 states each: a distinguishing word, if any, has length < 16+16;
        # we check the implication both ways on the bound we can afford
        if ca == cb and la != lb:
            bad += _fail('fa: equal canon but different bounded language')
        if ca != cb:
            w = fa.canon_distinguishing_word(ca, cb)
            if w is None or (fa.rnfa_of(a, 'ab').accepts(w) == fa.rnfa_of(b, 'ab').accepts(w)):
                bad += _fail('fa: canon differs but distinguishing word %r is not one' % w)
        # reference union / concat / star against enumeration
        U = fa.canon_words(fa.ref_union(ca, cb), 5)
        if U != {w for w in la | lb if len(w) <= 5}:
            bad += _fail('fa: ref_union wrong')
        C = fa.canon_words(fa.ref_concat(ca, cb), 5)
        if C != {u + v for u in la for v in lb if len(u) + len(v) <= 5}:
            bad += _fail('fa: ref_concat wrong')
        S = fa.canon_words(fa.ref_star(ca), 5)
        star = {''}
        for _ in range(6):
            star |= {u + v for u in star for v in la if len(u) + len(v) <= 5}
        if S != star:
            bad += _fail('fa: ref_star wrong')
    # --- regexp: Thompson vs derivatives
    for i in range(n):
        t = grx.tree(R, R.randint(0, 8), ['a', 'b'])
        c = rrx.canon_of_regexp(t, sigma='ab')
        ws = fa.canon_words(c, 6)
        for w in fa.words_upto('ab', 6):
            if (w in ws) != rrx.matches(t, w):
                bad += _fail('regexp: Thompson vs derivative disagree on %r for %s' % (w, json.dumps(t)))
                break
    # --- cfg: fixpoint vs CYK on CNF grammars
    for i in range(n // 2):
        g = gcfg.abstract_cnf(R)
        L = rcfg.lang_upto(g, 5)
        for w in fa.words_upto(sorted(g['Sigma']), 5):
            if (w in L) != rcfg.cyk_accepts(g, w):
                bad += _fail('cfg: fixpoint vs CYK disagree on %r for %s' % (w, json.dumps(g)))
                break
        for w in sorted(L):
            if w:
                d = rcfg.leftmost_derivation(g, w)
                if d is None or rcfg.check_derivation(g, d, w, 'leftmost'):
                    bad += _fail('cfg: reference derivation of %r rejected by the reference checker for %s' % (w, json.dumps(g)))
                    break
    # --- pda: summaries vs capped BFS
    decided = undecided = 0
    for i in range(n):
        p = gpda.abstract_pda(R) if i >= len(gpda.CORNERS) else gpda.CORNERS[i]
        for w in fa.words_upto(sorted(p['Sigma']), 3):
            b = rpda.accepts_bfs(p, w, cap=400)
            a = rpda.accepts(p, w)
            if b is None:
                undecided += 1
                if rpda.accepts_bfs_partial(p, w, cap=400) and not a:
                    bad += _fail('pda: summaries reject %r but truncated BFS found an accepting computation for %s' % (w, json.dumps(p)))
                    break
                continue
            decided += 1
            if a != b:
                bad += _fail('pda: summaries=%s bfs=%s on %r for %s' % (a, b, w, json.dumps(p)))
                break
    if decided < 1000 or undecided < 10:
        bad += _fail('pda: cross-check population too small (decided=%d undecided=%d)' % (decided, undecided))
    # --- iso: BFS form vs brute force
    for i in range(n):
        a = gfa.abstract_dfa(R, 1, 4, 1, 2, unreachable_max=1)
        if i % 3 == 0:
            b, _ = gfa.rename(a, R, keep_symbols=True)
        elif i % 3 == 1:
            b = json.loads(json.dumps(a))
            if b['delta']:
                k = R.randrange(len(b['delta']))
                b['delta'][k][2] = R.choice(b['Q'])
        else:
            b = gfa.abstract_dfa(R, 1, 4, len(a['Sigma']), len(a['Sigma']), unreachable_max=1)
        if iso.isomorphic(a, b) != iso.isomorphic_bruteforce(a, b):
            bad += _fail('iso: BFS form vs brute force disagree for %s / %s' % (json.dumps(a), json.dumps(b)))
    print('selftest: oracle cross-checks done (pda decided=%d undecided-by-bfs=%d), failures=%d' % (decided, undecided, bad))
    return bad


def determinism(props, rounds=(0, 2, 3), seed=7):
    from sim import coordinator as co
    bad = 0
    jobs = []
    for pid in props:
        for r in rounds:
            hs = co.hashseed_for(seed, pid, r)
            jobs.append((pid, r, hs, 'run'))
            jobs.append((pid, r, hs, 'run'))
            jobs.append((pid, r, 12345, 'gen'))
            jobs.append((pid, r, 54321, 'gen'))

    def go(job):
        pid, r, hs, mode = job
        if mode == 'run':
            return job, co.run_worker(['round', pid, seed, r, 'selftest'], hs, 600)
        return job, co.run_worker(['gen', pid, seed, r, 'selftest'], hs, 600)

    res = {}
    with cf.ThreadPoolExecutor(co.NPROC) as ex:
        for job, out in ex.map(go, jobs):
            if 'harness_fatal' in out:
                bad += _fail(out['harness_fatal'])
                continue
            pid, r, hs, mode = job
            if mode == 'run':
                key = (pid, r, 'run')
                val = (out['digest'], out['ticks'], out['cases'], json.dumps(out['violation_counts']))
            else:
                key = (pid, r, 'gen')
                val = out['gen_digest']
            if key in res and res[key] != val:
                bad += _fail('nondeterminism in %s: %s != %s' % (key, res[key], val))
            res[key] = val
    print('selftest: determinism over %d worker runs, failures=%d' % (len(jobs), bad))
    return bad


def main(argv):
    t0 = time.time()
    from props import plans
    bad = oracle_crosschecks()
    if '--no-determinism' not in argv:
        bad += determinism(sorted(plans.PLANS))
    print('selftest: %s in %.1fs' % ('OK' if not bad else 'FAILED', time.time() - t0))
    return 0 if not bad else 2
