"""Worker: one fresh interpreter = one hash seed ("zygote").  Imports gambatools + harness once, then runs
every case in a pristine os.fork() of itself, so that a case's outcome is a pure function of
(code, hash seed, case) — nothing that happened earlier in the process can leak in.

usage:  worker.py round  <PROP> <VERIF_SEED> <ROUND> <TIER>
        worker.py replay <FILE>
Prints exactly one JSON document on stdout.
"""
import sys
import os
import io
import json
import select
import signal
import time
import traceback

VERIF = os.path.dirname(os.path.dirname(os.path.abspath(__file__)))
if VERIF not in sys.path:
    sys.path.insert(0, VERIF)

from sim import rng as simrng  # noqa: E402
from sim.clock import Clock, SimTimeout  # noqa: E402

CHILD_WALL_S = 400         # harness safety only; never a verdict
SHRINK_EVALS = 500
SHRINK_TICKS = 25_000_000   # simulated time a single minimisation may spend
MAX_BAD_CASES = 8           # a round stops early once this many cases violated (keeps broken trees cheap)
ROUND_TICK_CAP = 100_000_000 # once something violated: simulated time after which a round stops (a clean round needs < 10 M)
MAX_REPORTED = 4            # distinct (class, site) violations minimised per round


class Env:
    """What a property's run_case sees of the simulator."""

    def __init__(self, clock, hashseed):
        self.clock = clock
        self.hashseed = hashseed
        self.SimTimeout = SimTimeout


def _src_dir():
    import gambatools
    return os.path.dirname(os.path.abspath(gambatools.__file__))


def load_prop(pid):
    import importlib
    return importlib.import_module('props.' + pid.lower())


def run_forked(prop, case, hashseed, wall=CHILD_WALL_S):
    """Run prop.run_case(case) in a pristine fork; returns its result dict (or a harness-level record)."""
    r, w = os.pipe()
    sys.stdout.flush()
    sys.stderr.flush()
    pid = os.fork()
    if pid == 0:
        code = 0
        try:
            os.close(r)
            real_stdout = sys.stdout
            sys.stdout = io.StringIO()          # the only stub: stdout sink
            clock = Clock(_src_dir())
            clock.install()
            env = Env(clock, hashseed)
            try:
                env.budget_used_permille = 0
                if isinstance(case, dict) and case.get('knob_logging'):
                    from gambatools.global_settings import GambaTools
                    GambaTools.enable_logging = True       # ambient configuration, drawn per case (swarm style)
                if isinstance(case, dict) and case.get('knob_limit') is not None:
                    from gambatools.global_settings import GambaTools
                    GambaTools.pda_epsilon_closure_max_iterations = case['knob_limit']   # properties about PDAs set their own value later
                res = prop.run_case(case, env)
            except SimTimeout as e:
                res = {'harness_error': 'uncaught SimTimeout: %s' % e}
            except BaseException:
                res = {'harness_error': traceback.format_exc()}
            if isinstance(res, dict) and isinstance(res.get('hist'), dict):
                res['hist']['max:tick_budget_used_permille'] = env.budget_used_permille
            sys.stdout = real_stdout
            data = json.dumps(res, ensure_ascii=False).encode('utf-8')
            with os.fdopen(w, 'wb') as f:
                f.write(data)
        except BaseException:
            code = 3
        finally:
            os._exit(code)
    os.close(w)
    chunks = []
    deadline = time.monotonic() + wall
    timed_out = False
    while True:
        left = deadline - time.monotonic()
        if left <= 0:
            timed_out = True
            break
        rl, _, _ = select.select([r], [], [], min(left, 5.0))
        if rl:
            b = os.read(r, 1 << 16)
            if not b:
                break
            chunks.append(b)
    os.close(r)
    if timed_out:
        try:
            os.kill(pid, signal.SIGKILL)
        except ProcessLookupError:
            pass
        os.waitpid(pid, 0)
        return {'harness_timeout': True}
    _, status = os.waitpid(pid, 0)
    raw = b''.join(chunks)
    if not raw:
        return {'harness_error': 'child produced no output (status %s)' % status}
    try:
        return json.loads(raw.decode('utf-8'))
    except Exception as e:  # pragma: no cover
        return {'harness_error': 'bad child output: %s' % e}


def run_case_any(prop, case, hashseed, wall=CHILD_WALL_S):
    """Properties may drive several pristine forks per case (C19: session + solo re-executions)."""
    f = getattr(prop, 'run_in_zygote', None)
    if f is not None:
        return f(case, hashseed, lambda c, wall=wall: run_forked(prop, c, hashseed, wall))
    return run_forked(prop, case, hashseed, wall)


def _has(res, cls, site):
    return any(v['cls'] == cls and v['site'] == site for v in res.get('viol', ()))


def minimise(prop, case, cls, site, hashseed):
    """Greedy ddmin.  Bounded by a number of candidate evaluations AND by simulated time (ticks), both deterministic:
    on a tree where every candidate runs into its tick budget the search must not take hours."""
    evals = 0
    spent = 0
    improved = True
    while improved and evals < SHRINK_EVALS and spent < SHRINK_TICKS:
        improved = False
        for cand in prop.shrink(case):
            evals += 1
            if evals > SHRINK_EVALS or spent > SHRINK_TICKS:
                break
            r = run_case_any(prop, cand, hashseed, wall=120)
            spent += r.get('ticks', 0) if isinstance(r, dict) else 0
            if _has(r, cls, site):
                case = cand
                improved = True
                break
    return case, evals


def gen_all(prop, pid, seed, rnd, tier):
    """The round's cases plus the per-case ambient knobs every property shares."""
    cases = prop.gen_cases(simrng.stream(seed, pid, 'round', rnd), tier, rnd)
    if getattr(prop, 'GENERIC_LOGGING_KNOB', True):
        kr = simrng.stream(seed, pid, 'knobs', rnd)
        for c in cases:
            if kr.random() < 0.2:
                c['knob_logging'] = True
            if kr.random() < 0.12:
                # the PDA closure limit is ambient too; code that has nothing to do with PDAs must not care
                c['knob_limit'] = kr.choice([0, 1, 2, 3, 5])
    return cases


def do_round(pid, seed, rnd, tier):
    prop = load_prop(pid)
    hashseed = os.environ.get('PYTHONHASHSEED', 'random')
    t0 = time.time()
    cases = gen_all(prop, pid, seed, rnd, tier)
    out = {'property': pid, 'round': rnd, 'hashseed': hashseed, 'cases': 0, 'ticks': 0, 'keys_nontrivial': set(),
           'scheds': set(), 'probes': {}, 'hist': {}, 'violations': [], 'harness': [], 'samples': [], 'digest': None}
    seen_v = {}
    dig = []
    bad_cases = 0
    logging_replica = os.environ.get('VERIF_REPLICA_LOGGING') == '1'
    out['step_digests'] = []
    out['step_notes'] = []
    out['step_argsigs'] = []
    for i, case in enumerate(cases):
        if bad_cases >= MAX_BAD_CASES or (bad_cases > 0 and out['ticks'] > ROUND_TICK_CAP):
            out['aborted_after'] = i      # deterministic: depends only on the outcomes (and tick counts) so far
            break
        if logging_replica:
            case['logging'] = True
        res = run_case_any(prop, case, hashseed)
        if 'steps' in res:
            out['step_digests'].append(res['steps'])
            out['step_notes'].append(res.get('notes', {}))
            out['step_argsigs'].append(res.get('argsigs', []))
        if 'harness_error' in res or 'harness_timeout' in res:
            out['harness'].append({'res': res, 'case': case})
            if 'step_digests' in out and len(out['step_digests']) == len(out['step_notes']):
                # keep the per-session lists aligned across replicas: a failed session is a hole, not a shift
                out['step_digests'].append(None)
                out['step_notes'].append({})
                out['step_argsigs'].append(None)
            if len(out['harness']) > 3:
                break
            continue
        out['cases'] += res.get('evals', 1)
        if isinstance(case, dict) and case.get('knob_logging'):
            out['probes']['knob_logging_on'] = out['probes'].get('knob_logging_on', 0) + 1
        if isinstance(case, dict) and case.get('knob_limit') is not None:
            out['probes']['knob_small_closure_limit'] = out['probes'].get('knob_small_closure_limit', 0) + 1
        out['ticks'] += res.get('ticks', 0)
        for k in res.get('nontrivial_keys', ()):
            out['keys_nontrivial'].add(k)
        for s in res.get('scheds', ()):
            out['scheds'].add(s)
        for k, v in res.get('probes', {}).items():
            out['probes'][k] = out['probes'].get(k, 0) + v
        for k, v in res.get('hist', {}).items():
            out['hist'][k] = max(out['hist'].get(k, 0), v) if k.startswith('max:') else out['hist'].get(k, 0) + v
        dig.append([res.get('digest'), res.get('ticks', 0)])
        if i < 2 and rnd < 2:
            out['samples'].append(prop.sample(case, res))
        if res.get('viol'):
            bad_cases += 1
        for v in res.get('viol', ()):
            key = (v['cls'], v['site'])
            seen_v[key] = seen_v.get(key, 0) + 1
            if seen_v[key] == 1 and len(out['violations']) < MAX_REPORTED:
                small, evals = minimise(prop, case, v['cls'], v['site'], hashseed)
                r2 = run_case_any(prop, small, hashseed)
                vv = next((x for x in r2.get('viol', ()) if x['cls'] == v['cls'] and x['site'] == v['site']), v)
                out['violations'].append({'cls': v['cls'], 'site': v['site'], 'detail': vv.get('detail'),
                                          'case': small, 'orig_case': case, 'hashseed': hashseed, 'round': rnd,
                                          'shrink_evals': evals, 'tags': vv.get('tags', [])})
    out['violation_counts'] = [[k[0], k[1], n] for k, n in sorted(seen_v.items())]
    out['keys_nontrivial'] = sorted(out['keys_nontrivial'])
    out['scheds'] = sorted(out['scheds'])
    out['digest'] = simrng.hexdigest(dig)
    out['wall_s'] = round(time.time() - t0, 3)
    return out


def do_replay(path):
    with open(path, encoding='utf-8') as f:
        rep = json.load(f)
    prop = load_prop(rep['property'])
    hashseed = os.environ.get('PYTHONHASHSEED', 'random')
    res = run_case_any(prop, rep['case'], hashseed)
    return {'replay': path, 'hashseed': hashseed, 'res': res,
            'reproduced': _has(res, rep['cls'], rep['site'])}


def serve(pid):
    """Zygote server: one JSON case per input line -> one JSON result per output line (used for
    cross-replica minimisation and replay, where the same interpreter must evaluate many candidate sessions)."""
    prop = load_prop(pid)
    hashseed = os.environ.get('PYTHONHASHSEED', 'random')
    sys.stdout.write(json.dumps({'ready': True, 'hashseed': hashseed}) + '\n')
    sys.stdout.flush()
    for line in sys.stdin:
        line = line.strip()
        if not line:
            continue
        case = json.loads(line)
        res = run_case_any(prop, case, hashseed)
        sys.stdout.write(json.dumps(res, ensure_ascii=False) + '\n')
        sys.stdout.flush()


def main(argv):
    if argv[1] == 'round':
        out = do_round(argv[2], int(argv[3]), int(argv[4]), argv[5])
    elif argv[1] == 'gen':
        prop = load_prop(argv[2])
        cases = gen_all(prop, argv[2], int(argv[3]), int(argv[4]), argv[5])
        out = {'gen_digest': simrng.hexdigest(cases), 'n': len(cases)}
    elif argv[1] == 'cases':
        prop = load_prop(argv[2])
        out = {'cases': gen_all(prop, argv[2], int(argv[3]), int(argv[4]), argv[5])}
    elif argv[1] == 'serve':
        return serve(argv[2])
    elif argv[1] == 'replay':
        out = do_replay(argv[2])
    else:
        raise SystemExit('bad mode')
    sys.stdout.write(json.dumps(out, ensure_ascii=False))
    sys.stdout.write('\n')
    sys.stdout.flush()


if __name__ == '__main__':
    main(sys.argv)
