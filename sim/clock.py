"""The simulated clock: a deterministic tick counter driven by sys.monitoring (Python >= 3.12).

A tick is one PY_START event or one backward JUMP event in a code object whose file lives under the
gambatools source directory.  Ticks are a pure function of (code, input, hash seed); wall-clock time is
never read.  A second, cheaper livelock signature is "one loop iterated N times in a row within one invocation of a library
function" (per code object: the same backward jump of a `while` loop repeated with no other while-loop back edge of
that code object and no re-entry in between; calls made from the loop body and inner `for` loops do not reset it;
back edges of `for` loops — destination FOR_ITER — never count, because a for-loop is bounded by its iterable and the
closure sets of a PDA legitimately reach tens of thousands of configurations): the
library's hang sites are call-free `while` loops whose cost per iteration grows (list.insert(0, ..)), so waiting
for the full tick budget there would cost quadratic wall time.  When the budget is exceeded SimTimeout (a BaseException, so that the library's and the
checkers' `except Exception` cannot swallow it) is raised inside the monitored frame.
"""
import sys
import os

TOOL = 4
_FOR_ITER = __import__('dis').opmap['FOR_ITER']


class SimTimeout(BaseException):
    pass


class Clock:
    def __init__(self, src_dir):
        self.src_dir = os.path.realpath(src_dir) + os.sep
        self.ticks = 0
        self.run = 0
        self.spin = {}          # code object -> [offset of its last backward jump, consecutive repetitions]
        self.tight = None       # livelock signature: that many backward jumps without a single call
        self.budget = None
        self.active = False
        self._cache = {}
        self._forcache = {}

    def _mine(self, code):
        r = self._cache.get(code)
        if r is None:
            fn = code.co_filename
            r = os.path.realpath(fn).startswith(self.src_dir) if fn and not fn.startswith('<') else False
            self._cache[code] = r
        return r

    def _is_for_backedge(self, code, dst):
        key = (code, dst)
        r = self._forcache.get(key)
        if r is None:
            try:
                r = code.co_code[dst] == _FOR_ITER
            except IndexError:
                r = False
            self._forcache[key] = r
        return r

    def _on_start(self, code, offset):
        if not self._mine(code):
            return sys.monitoring.DISABLE
        self.ticks += 1
        self.run = 0
        self.spin.pop(code, None)
        if self.budget is not None and self.ticks > self.budget:
            self.budget = None  # fire once
            raise SimTimeout('tick budget exceeded at %s:%s' % (code.co_filename, code.co_name))

    def _on_jump(self, code, src, dst):
        if not self._mine(code):
            return sys.monitoring.DISABLE
        if dst < src:
            self.ticks += 1
            if self._is_for_backedge(code, dst):
                self.run = 0       # a for-loop is bounded by its iterable: never a livelock signature
            else:
                e = self.spin.get(code)
                if e is not None and e[0] == src:
                    e[1] += 1
                    self.run = e[1]
                else:
                    self.spin[code] = [src, 1]
                    self.run = 1
            if self.budget is not None and (self.ticks > self.budget or (self.tight is not None and self.run > self.tight)):
                why = 'tick budget exceeded' if self.ticks > self.budget else 'spinning loop: one loop iterated %d times in a row within one invocation' % self.run
                self.budget = None
                raise SimTimeout('%s at %s:%s' % (why, code.co_filename, code.co_name))

    def install(self):
        m = sys.monitoring
        if m.get_tool(TOOL) is None:
            m.use_tool_id(TOOL, 'verif-clock')
        m.register_callback(TOOL, m.events.PY_START, self._on_start)
        m.register_callback(TOOL, m.events.JUMP, self._on_jump)
        m.set_events(TOOL, m.events.PY_START | m.events.JUMP)
        self.active = True

    def uninstall(self):
        m = sys.monitoring
        m.set_events(TOOL, 0)
        m.register_callback(TOOL, m.events.PY_START, None)
        m.register_callback(TOOL, m.events.JUMP, None)
        m.free_tool_id(TOOL)
        self.active = False

    def start(self, budget, tight=None):
        self.ticks = 0
        self.run = 0
        self.spin = {}
        self.tight = tight
        self.budget = budget

    def stop(self):
        self.budget = None
        return self.ticks
