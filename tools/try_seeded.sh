#!/bin/sh
# usage: tools/try_seeded.sh <seeded-id> <property> [tier]   - applies the change in a scratch worktree, runs one check, removes the worktree
id=$1; prop=$2; tier=${3:-quick}
wt=/tmp/try_$id; out=/tmp/try_out_$id
git -C /repo worktree remove --force $wt 2>/dev/null; rm -rf $wt $out
git -C /repo worktree add -q $wt HEAD && git -C $wt apply /verif/seeded/$id/patch.diff || exit 9
cd /verif && VERIF_REPO=$wt VERIF_OUT=$out timeout 1500 ./check $prop --tier $tier 2>&1 | grep -v '^ *$' | cut -c1-330 | tail -${TAILN:-5}
git -C /repo worktree remove --force $wt; rm -rf $wt $out
