#!/usr/bin/env python3
"""Copies what tools/run_seeded.py measured into each /verif/seeded/<id>/meta.json ("what was run")."""
import json, os
VERIF = os.path.dirname(os.path.dirname(os.path.abspath(__file__)))
res = json.load(open(os.path.join(VERIF, 'seeded', 'RESULTS.json')))
for name, r in sorted(res.items()):
    mp = os.path.join(VERIF, 'seeded', name, 'meta.json')
    if not os.path.exists(mp):
        continue
    meta = json.load(open(mp))
    own = r['checks'].get(r['property'], {})
    meta['ran'] = {
        'how': 'tools/run_seeded.py %s: scratch worktree of /repo HEAD outside /repo and /verif, git apply patch.diff, 50 repository tests, demo.py on both trees, ./check %s --tier quick with VERIF_REPO=<worktree>, worktree removed' % (name, r['property']),
        'repository_tests_with_patch': r.get('tests'),
        'demo_exit_on_unchanged_tree': r.get('demo_on_unchanged_tree_exit'),
        'demo_exit_on_changed_tree': r.get('demo_on_changed_tree_exit'),
        'check_exit': own.get('exit'),
        'check_violation_classes': own.get('classes'),
        'check_wall_s': own.get('wall_s'),
        'caught': own.get('exit') == 1,
    }
    json.dump(meta, open(mp, 'w'), indent=1, ensure_ascii=False)
print('annotated', len(res))
