#!/usr/bin/env python3
"""Runs the registered checks against every seeded change under /verif/seeded/<id>/.

For each change: a scratch worktree of /repo's HEAD is created outside /repo and /verif, patch.diff is applied,
the 50 repository tests are run (the change must still pass them), the demonstration is run against the changed
and the unchanged tree, the check(s) of the property (or all checks with --all) are run with VERIF_REPO pointing at
the worktree, and the worktree is removed.  Nothing is ever applied to /repo itself.
Writes /verif/seeded/RESULTS.json and prints a table.   usage: run_seeded.py [--all] [--tier quick] [ids...]
"""
import json
import os
import shutil
import subprocess
import sys
import time

VERIF = os.path.dirname(os.path.dirname(os.path.abspath(__file__)))
SEEDED = os.path.join(VERIF, 'seeded')
CLAIMED = ['C02', 'C04', 'C06', 'C08', 'C09', 'C15', 'C18', 'C19', 'C20']


def sh(cmd, **kw):
    return subprocess.run(cmd, shell=True, stdout=subprocess.PIPE, stderr=subprocess.STDOUT, text=True, **kw)


def main(argv):
    run_all = '--all' in argv
    tier = 'quick'
    if '--tier' in argv:
        tier = argv[argv.index('--tier') + 1]
    ids = [a for a in argv[1:] if not a.startswith('--') and a != tier]
    names = sorted(d for d in os.listdir(SEEDED) if os.path.isfile(os.path.join(SEEDED, d, 'meta.json')))
    if ids:
        names = [n for n in names if n in ids]
    results = {}
    res_path = os.environ.get('VERIF_SEEDED_RESULTS') or os.path.join(SEEDED, 'RESULTS.json')
    if os.path.exists(res_path):
        results = json.load(open(res_path))
    for name in names:
        d = os.path.join(SEEDED, name)
        meta = json.load(open(os.path.join(d, 'meta.json')))
        wt = '/tmp/seedrun_%s' % name
        out = '/tmp/seedrun_out_%s' % name
        sh('git -C /repo worktree remove --force %s' % wt)
        shutil.rmtree(wt, ignore_errors=True)
        r = sh('git -C /repo worktree add -q %s HEAD' % wt)
        if r.returncode:
            print(name, 'cannot create worktree', r.stdout)
            continue
        rec = {'property': meta['property'], 'checks': {}}
        try:
            env = dict(os.environ, PYTHONPATH=wt + '/src')
            demo = os.path.join(d, meta.get('demo', 'demo.py'))
            r0 = subprocess.run(['/venv/bin/python', demo], env=env, cwd=wt, stdout=subprocess.PIPE, stderr=subprocess.STDOUT, text=True, timeout=900)
            rec['demo_on_unchanged_tree_exit'] = r0.returncode
            r = sh('git -C %s apply %s' % (wt, os.path.join(d, 'patch.diff')))
            if r.returncode:
                rec['error'] = 'patch does not apply: ' + r.stdout[-300:]
                results[name] = rec
                continue
            t = sh('cd %s && PYTHONPATH=%s/src /venv/bin/python -m pytest -q -p no:cacheprovider --timeout=900 2>&1 | tail -1' % (wt, wt))
            rec['tests'] = t.stdout.strip()
            r1 = subprocess.run(['/venv/bin/python', demo], env=env, cwd=wt, stdout=subprocess.PIPE, stderr=subprocess.STDOUT, text=True, timeout=900)
            rec['demo_on_changed_tree_exit'] = r1.returncode
            for pid in (CLAIMED if run_all else [meta['property']]):
                t0 = time.time()
                c = sh('cd %s && VERIF_REPO=%s VERIF_OUT=%s ./check %s --tier %s' % (VERIF, wt, out, pid, tier))
                lines = c.stdout.splitlines()
                classes = [l.strip()[:160] for l in lines if l.strip().startswith('class=')]
                rec['checks'][pid] = {'exit': c.returncode, 'violations': sum(1 for l in lines if l.startswith('VIOLATION')),
                                      'classes': classes[:6], 'wall_s': round(time.time() - t0, 1),
                                      'harness': [l[:200] for l in lines if l.startswith('HARNESS')][:3]}
        finally:
            sh('git -C /repo worktree remove --force %s' % wt)
            shutil.rmtree(wt, ignore_errors=True)
            shutil.rmtree(out, ignore_errors=True)
        results[name] = rec
        own = rec['checks'].get(meta['property'], {})
        print('%-12s %s tests=[%s] demo(unchanged/changed)=%s/%s  own check: exit=%s %s  %.0fs' % (
            name, meta['property'], rec.get('tests'), rec.get('demo_on_unchanged_tree_exit'), rec.get('demo_on_changed_tree_exit'),
            own.get('exit'), [c.split(' tags=')[0] for c in own.get('classes', [])][:3], own.get('wall_s', 0)))
        with open(res_path, 'w') as f:
            json.dump(results, f, indent=1, sort_keys=True)
    return 0


if __name__ == '__main__':
    sys.exit(main(sys.argv))
