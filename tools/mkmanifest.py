#!/usr/bin/env python3
"""Regenerates /verif/MANIFEST.json from props/plans.py (claimed checks) and the not-applicable table below."""
import json
import os
import sys

VERIF = os.path.dirname(os.path.dirname(os.path.abspath(__file__)))
sys.path.insert(0, VERIF)
from props import plans  # noqa: E402

NOT_APPLICABLE = {
    'C01': 'dfa/nfa_accepts_word and epsilon_closure are pure functions of (automaton, word): no schedule, clock, I/O, fault or cross-call state for a simulator to own; the quantifier is inputs only (schedule/history independence of these functions is exercised differentially under C19)',
    'C03': 'nfa_to_dfa is a pure function of its NFA and names result states by sorted subsets, so no schedule-dependent outcome is even specified; deciding it needs an input space and a decision procedure, not a simulator',
    'C05': 'regexp_accepts_word / regexp_simplify are structural recursions over an immutable tree: no set is iterated, no state kept, no knob read; inputs-only quantifier',
    'C07': 'CYK membership and table are pure functions of (grammar, word); the only order-dependent step on the way (CNF conversion) is decided under C08',
    'C10': 'the PDA normal forms and pda_to_cfg work on a deep copy with deterministically chosen fresh names; pure function of the PDA, inputs-only quantifier',
    'C11': 'tm_do_transition / tm_accepts_word / tm_simulate_word iterate no set and read no global; the step budget is an explicit argument, so the verdict is a pure function of (machine, word, k)',
    'C12': "a checker's verdict is a pure function of (reference text, answer text, length); the single file read has no fault the property speaks about; soundness against all wrong answers is an input-space question (verdict stability across hash seeds/history is covered by C19)",
    'C13': 'generator -> printer -> parser -> checker is a pure pipeline over texts; there is no second party, schedule or fault in the property',
    'C14': 'products, complement, reverse, prefix-free, non-extendable, reachability, totalisation and the finite-language helpers are pure functions of their operands; inputs-only quantifier',
    'C16': 'print-then-parse is a pure function of the object; label order inside a printed line is order-dependent but immaterial to the parsed (set-based) result',
    'C17': 'parsing is a pure function of the text; "all layouts and single-fault corruptions" is an input space, not a fault schedule of a running system',
}


def main():
    checks = []
    for pid in sorted(plans.PLANS):
        m = plans.PLANS[pid]
        checks.append({
            'property_id': pid,
            'quick_cmd': './check %s --tier quick' % pid,
            'thorough_cmd': './check %s --tier thorough' % pid,
            'evidence_file': '/verif/evidence/%s.json' % pid,
            'replay_cmd_template': './check %s --replay {path}' % pid,
            'engine': 'sim',
            'technique': m['technique'],
            'level_claimed': {'category': 'exploration', 'text': m['level_text'], 'design_ref': m['design_ref']},
            'level_note': m['level_note'],
        })
    man = {
        'version': 1,
        'setup_cmd': './check selftest',
        'hooks': {
            'guard': 'GAMBATOOLS_VERIF',
            'enable': 'no hook exists in /repo: every seam used (PYTHONHASHSEED, object names, GambaTools class attributes, sys.monitoring, sys.stdout, module globals) is already there; checks import /repo/src of the current working tree in fresh interpreters (workers export GAMBATOOLS_VERIF=1, which nothing reads)',
            'baseline_off_cmd': 'cd /repo && /venv/bin/python -m pytest -ra -q -p no:cacheprovider --timeout=900 --continue-on-collection-errors',
            'source_commits': [],
            'add_only': True,
        },
        'engines': [{
            'name': 'sim', 'path': '/verif/sim', 'serves_properties': sorted(plans.PLANS),
            'kind_free_text': 'deterministic simulation without faults: a seeded coordinator derives rounds from VERIF_SEED; each round is a fresh CPython with a simulator-chosen PYTHONHASHSEED; each case/session runs in a pristine os.fork() of that interpreter under seeded renaming, insertion order, knob settings and a sys.monitoring tick clock; reference models as oracles; ddmin; replay files confirmed in a fresh interpreter before any VIOLATION line',
        }],
        'checks': checks,
        'not_applicable': [{'property_id': k, 'reason': v} for k, v in sorted(NOT_APPLICABLE.items()) if k not in plans.PLANS],
        'notes': 'See DESIGN.md. Exit codes: 0 held, 1 violation (VIOLATION property=<id> replay=<path>), 2 harness error. known_findings.json lists recorded and fixed defects.',
    }
    with open(os.path.join(VERIF, 'MANIFEST.json'), 'w', encoding='utf-8') as f:
        json.dump(man, f, ensure_ascii=False, indent=1)
        f.write('\n')
    print('MANIFEST.json: %d checks, %d not applicable' % (len(checks), len(man['not_applicable'])))


if __name__ == '__main__':
    main()
