#!/usr/bin/env python3
"""Copies a sub-agent's output (/tmp/seed_<PID>/_out/<k>/) into /verif/seeded/<PID>-<k>/ with a meta.json."""
import json, os, shutil, sys
for pid in sys.argv[1:]:
    base = '/tmp/seed_%s/_out' % pid
    for k in sorted(os.listdir(base)):
        src = os.path.join(base, k)
        if not os.path.isdir(src) or not os.path.exists(os.path.join(src, 'patch.diff')):
            continue
        dst = '/verif/seeded/%s-%s' % (pid, k)
        os.makedirs(dst, exist_ok=True)
        for f in ('patch.diff', 'demo.py', 'notes.md'):
            if os.path.exists(os.path.join(src, f)):
                shutil.copy(os.path.join(src, f), os.path.join(dst, f))
        notes = open(os.path.join(dst, 'notes.md')).read() if os.path.exists(os.path.join(dst, 'notes.md')) else ''
        import re
        m = re.search(r'property:\s*(C\d\d)', notes)
        meta = {'property': m.group(1) if m else pid, 'origin': 'independent sub-agent given only the text of the property (or two), one line about each earlier change, and a scratch worktree of /repo HEAD',
                'needs_to_manifest': notes.strip()[:1500], 'demo': 'demo.py',
                'confirmed': 'see ../RESULTS.json (tools/run_seeded.py): patch applies, 50 tests pass, demo exit 0 unchanged / != 0 changed'}
        json.dump(meta, open(os.path.join(dst, 'meta.json'), 'w'), indent=1)
        print('imported', dst)
