"""Seeded injective renamings.  Under one hash seed the iteration order of a set is a function of its
element strings and insertion history, so drawing fresh names per case explores many orders per process.
Library-chosen constants are in the pool on purpose (with low probability)."""
import string

_ALNUM = string.ascii_letters + string.digits + '_'
SPECIAL_STATES = ['start', 'accept', 'trap1', 'P1', 'P2', 'M1', 'M2', 'q1', 'q2', 'q_accept1', 'q_initial1', 'q0', 'q3',
                  'reject', 'q_accept', 'q_initial', 'trap', 'P', 'M', 'q', 'q4', 'q5']
LOWER = string.ascii_lowercase
UPPER = string.ascii_uppercase


def fresh_state_names(rng, n, special_p=0.08, style=None, setlike_p=0.04):
    """n distinct state names.  style: None = drawn; 'q' = q0..; 'rand' = random words."""
    if style is None:
        style = rng.choice(['rand', 'rand', 'rand', 'q', 's', 'digits'])
    out = []
    used = set()
    offset = rng.randrange(0, 3)
    for i in range(n):
        while True:
            if rng.random() < special_p:
                nm = rng.choice(SPECIAL_STATES)
            elif style == 'q':
                nm = 'q%d' % (i + offset)
            elif style == 's':
                nm = 's%d' % i
            elif style == 'digits':
                nm = str(rng.randrange(0, max(50, 4 * n)))
            else:
                nm = ''.join(rng.choice(_ALNUM) for _ in range(rng.randrange(1, 5)))
                if rng.random() < 0.03:
                    nm = nm[:2] + rng.choice(['%', '%s', '-', '.', '#', '$', '\\', "'"]) + nm[2:]    # legal for objects built through the constructors
            if nm not in used:
                break
            if style in ('q', 's'):
                nm = nm + '_' + str(len(used))
                if nm not in used:
                    break
        used.add(nm)
        out.append(nm)
    # legal but unusual: names that look like the names the library itself generates for state sets / pairs
    if n >= 1 and rng.random() < setlike_p * n:
        i = rng.randrange(n)
        others = [x for j, x in enumerate(out) if j != i]
        pick = sorted(rng.sample(others, min(len(others), rng.randint(0, 2))))
        form = rng.choice(['{%s}', '{%s}', '(%s)'])
        nm = form % ','.join(pick)
        if nm not in used:
            out[i] = nm
    return out


def fresh_symbols(rng, n, pool=None, avoid=()):
    pool = [c for c in (pool or (LOWER + string.digits)) if c not in avoid]
    return rng.sample(pool, n)


def fresh_variables(rng, n, multi_p=0.0):
    """n distinct grammar variable names: upper-case letters (a random permutation), falling back to or mixing
    in multi-letter names such as 'X12' / 'AB'."""
    letters = list(UPPER)
    rng.shuffle(letters)
    out, used = [], set()
    for i in range(n):
        if letters and rng.random() >= multi_p:
            nm = letters.pop()
        else:
            while True:
                if rng.random() < 0.5:
                    nm = rng.choice('SSSABT' + UPPER) + str(rng.randrange(0, 13))     # like the names the library generates itself
                else:
                    nm = rng.choice(UPPER) + ''.join(rng.choice(UPPER + string.digits) for _ in range(rng.randrange(1, 3)))
                if nm not in used:
                    break
        used.add(nm)
        out.append(nm)
    return out


def shuffled(rng, xs):
    xs = list(xs)
    rng.shuffle(xs)
    return xs
