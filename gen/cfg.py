"""Seeded context-free grammars (abstract variables V0.., terminals a,b,c) and their renaming."""
from gen import names


def abstract_cfg(rng, vmin=1, vmax=6, tmax=3, feats=None):
    nv = rng.randint(vmin, vmax)
    nt = rng.randint(1, tmax)
    V = ['V%d' % i for i in range(nv)]
    T = list('abc'[:nt])
    f = feats or {}
    p_eps = f.get('eps', rng.choice([0.0, 0.1, 0.25]))
    p_unit = f.get('unit', rng.choice([0.0, 0.15, 0.3]))
    p_var = f.get('var', rng.choice([0.3, 0.5, 0.6]))
    maxlen = f.get('maxlen', rng.choice([2, 3, 4]))
    R = []
    for A in V:
        for _ in range(rng.randint(0 if A != V[0] else 1, 3)):
            r = rng.random()
            if r < p_eps:
                rhs = []
            elif r < p_eps + p_unit:
                rhs = [[rng.choice(V), 'V']]
            else:
                L = rng.randint(1, maxlen)
                rhs = [([rng.choice(V), 'V'] if rng.random() < p_var else [rng.choice(T), 'T']) for _ in range(L)]
            R.append([A, rhs])
    if rng.random() < 0.25 and R:
        # a rule sharing its right-hand side with another one
        A, rhs = rng.choice(R)
        R.append([rng.choice(V), [list(s) for s in rhs]])
    if rng.random() < 0.2:
        R.append([rng.choice(V), [[V[0], 'V'], [rng.choice(T), 'T']]])   # start variable on a right-hand side
    if rng.random() < 0.15 and nv >= 2:
        R.append([V[0], [[V[1], 'V']]])
        R.append([V[1], [[V[0], 'V']]])                                    # unit cycle
    used_t = sorted({s[0] for _, rhs in R for s in rhs if s[1] == 'T'})
    Sigma = [t for t in T if t in used_t] if rng.random() < 0.7 else T
    return {'kind': 'cfg', 'V': V, 'Sigma': Sigma, 'R': R, 'S': V[0], 'eps': 'ε'}


def pad_variables(rng, g, total, long_rule=True):
    """Add variables (each with a trivial terminal rule, some referenced) so that |V| reaches `total`."""
    g = {**g, 'V': list(g['V']), 'R': [list(r) for r in g['R']], 'Sigma': list(g['Sigma'])}
    i = len(g['V'])
    if not g['Sigma']:
        g['Sigma'] = ['a']
    while len(g['V']) < total:
        v = 'V%d' % i
        i += 1
        g['V'].append(v)
        g['R'].append([v, [[rng.choice(g['Sigma']), 'T']]])
        if rng.random() < 0.15:
            g['R'].append([g['S'], [[v, 'V'], [v, 'V'], [rng.choice(g['Sigma']), 'T']]])
    if long_rule:
        # the fresh variables of one long rule are drawn as a batch: make sure a batch can straddle the 26 boundary
        L = rng.randint(4, 6)
        g['R'].append([rng.choice(g['V']), [([rng.choice(g['V']), 'V'] if rng.random() < 0.5 else [rng.choice(g['Sigma']), 'T']) for _ in range(L)]])
    return g


def abstract_cnf(rng, vmin=1, vmax=5, tmax=2):
    nv = rng.randint(vmin, vmax)
    nt = rng.randint(1, tmax)
    V = ['V%d' % i for i in range(nv)]
    T = list('abc'[:nt])
    R = []
    nonstart = V[1:]
    for A in V:
        for _ in range(rng.randint(1, 3)):
            if nonstart and rng.random() < 0.55:
                R.append([A, [[rng.choice(nonstart), 'V'], [rng.choice(nonstart), 'V']]])
            else:
                R.append([A, [[rng.choice(T), 'T']]])
    if rng.random() < 0.3:
        R.append([V[0], []])
    # dedupe, keep order
    seen, R2 = set(), []
    for r in R:
        k = repr(r)
        if k not in seen:
            seen.add(k)
            R2.append(r)
    return {'kind': 'cfg', 'V': V, 'Sigma': T, 'R': R2, 'S': V[0], 'eps': 'ε'}


def rename(g, rng, multi_p=0.0, shuffle_sets=True, upper_only=True):
    new_v = names.fresh_variables(rng, len(g['V']), multi_p=multi_p)
    vm = dict(zip(g['V'], new_v))
    ts = sorted(set(g['Sigma']) | {s[0] for _, rhs in g['R'] for s in rhs if s[1] == 'T'})
    new_t = rng.sample(names.LOWER, len(ts)) if (upper_only or rng.random() >= 0.15) else rng.sample('0123456789', len(ts))   # digit terminals: legal through the constructors only
    tm = dict(zip(ts, new_t))
    out = dict(g)
    out['V'] = [vm[v] for v in g['V']]
    out['Sigma'] = [tm[t] for t in g['Sigma']]
    out['R'] = [[vm[A], [[vm[s[0]], 'V'] if s[1] == 'V' else [tm[s[0]], 'T'] for s in rhs]] for A, rhs in g['R']]
    out['S'] = vm[g['S']]
    if shuffle_sets:
        out['V'] = names.shuffled(rng, out['V'])
        out['Sigma'] = names.shuffled(rng, out['Sigma'])
    rank = {'V': {vm[v]: i for i, v in enumerate(g['V'])}, 'Sigma': {tm[t]: i for i, t in enumerate(ts)}}
    return out, rank


CORNERS = [
    {'kind': 'cfg', 'V': ['V0'], 'Sigma': ['a'], 'R': [['V0', [['a', 'T']]]], 'S': 'V0', 'eps': 'ε'},
    {'kind': 'cfg', 'V': ['V0'], 'Sigma': [], 'R': [['V0', []]], 'S': 'V0', 'eps': 'ε'},
    {'kind': 'cfg', 'V': ['V0'], 'Sigma': ['a'], 'R': [['V0', [['a', 'T'], ['V0', 'V']]], ['V0', []]], 'S': 'V0', 'eps': 'ε'},
    {'kind': 'cfg', 'V': ['V0', 'V1'], 'Sigma': ['a', 'b'],
     'R': [['V0', [['V1', 'V']]], ['V1', [['V0', 'V']]], ['V1', [['a', 'T']]], ['V0', [['b', 'T'], ['V0', 'V'], ['b', 'T']]]], 'S': 'V0', 'eps': 'ε'},
    {'kind': 'cfg', 'V': ['V0', 'V1', 'V2'], 'Sigma': ['a', 'b'],
     'R': [['V0', [['V1', 'V'], ['V2', 'V'], ['V1', 'V']]], ['V1', []], ['V1', [['a', 'T']]], ['V2', [['b', 'T']]], ['V2', [['V1', 'V']]]], 'S': 'V0', 'eps': 'ε'},
    {'kind': 'cfg', 'V': ['V0', 'V1'], 'Sigma': ['a'],
     'R': [['V0', [['V1', 'V'], ['V1', 'V'], ['V1', 'V'], ['V1', 'V']]], ['V1', [['a', 'T']]], ['V1', []]], 'S': 'V0', 'eps': 'ε'},
    {'kind': 'cfg', 'V': ['V0', 'V1'], 'Sigma': ['a', 'b'],
     'R': [['V0', [['a', 'T'], ['V1', 'V'], ['b', 'T']]], ['V1', [['a', 'T'], ['V1', 'V'], ['b', 'T']]], ['V1', [['V1', 'V']]]], 'S': 'V0', 'eps': 'ε'},
    # empty languages: the start variable has only unit rules / a unit cycle / no rule at all
    {'kind': 'cfg', 'V': ['V0'], 'Sigma': ['a'], 'R': [['V0', [['V0', 'V']]]], 'S': 'V0', 'eps': 'ε'},
    {'kind': 'cfg', 'V': ['V0', 'V1', 'V2'], 'Sigma': ['a'], 'R': [['V0', [['V1', 'V']]], ['V1', [['V2', 'V']]], ['V2', [['V1', 'V']]]], 'S': 'V0', 'eps': 'ε'},
    {'kind': 'cfg', 'V': ['V0', 'V1'], 'Sigma': ['a'], 'R': [['V1', [['a', 'T']]]], 'S': 'V0', 'eps': 'ε'},
    {'kind': 'cfg', 'V': ['V0'], 'Sigma': ['a'], 'R': [], 'S': 'V0', 'eps': 'ε'},
    # a one-letter language beside an unreachable long rule with the same letter
    {'kind': 'cfg', 'V': ['V0', 'V1'], 'Sigma': ['a', 'b'], 'R': [['V0', [['a', 'T']]], ['V1', [['a', 'T'], ['V1', 'V'], ['b', 'T']]], ['V1', [['a', 'T'], ['b', 'T']]]], 'S': 'V0', 'eps': 'ε'},
    # useless / non-productive variables
    {'kind': 'cfg', 'V': ['V0', 'V1', 'V2'], 'Sigma': ['a'],
     'R': [['V0', [['a', 'T']]], ['V0', [['V1', 'V'], ['a', 'T']]], ['V1', [['V1', 'V'], ['a', 'T']]], ['V2', [['a', 'T'], ['a', 'T']]]], 'S': 'V0', 'eps': 'ε'},
]


def wide_cfg(rng):
    """A simple-format grammar (one or two single-letter variables) with long, nullable right-hand sides: its Chomsky
    normal form needs dozens of fresh variables (more than the 26 letters)."""
    V = ['V0'] + (['V1'] if rng.random() < 0.4 else [])
    T = list('ab'[:rng.randint(1, 2)])
    R = []
    for _ in range(rng.randint(2, 3)):
        L = rng.randint(5, 7)
        R.append([rng.choice(V), [([rng.choice(V), 'V'] if i % 2 else [rng.choice(T), 'T']) for i in range(L)]])
    R.append(['V0', []])
    if len(V) > 1:
        R.append(['V1', [[rng.choice(T), 'T']]])
    if not any(A == 'V0' and rhs for A, rhs in R):
        R.insert(0, ['V0', [[T[0], 'T'], ['V0', 'V'], [T[-1], 'T'], ['V0', 'V'], [T[0], 'T'], ['V0', 'V']]])
    return {'kind': 'cfg', 'V': V, 'Sigma': T, 'R': R, 'S': 'V0', 'eps': 'ε'}


def cnf_shaped_cfg(rng):
    """Every rule LOOKS like Chomsky normal form (A -> BC, A -> a, A -> epsilon) but the grammar is not in CNF: epsilon rules
    on variables that occur on right-hand sides, the start variable on right-hand sides."""
    g = abstract_cnf(rng, 2, 4, 2)
    V = g['V']
    R = [list(r) for r in g['R']]
    for _ in range(rng.randint(1, 2)):
        R.append([rng.choice(V[1:] or V), []])
    if rng.random() < 0.5:
        R.append([rng.choice(V), [[V[0], 'V'], [rng.choice(V), 'V']]])
    seen, R2 = set(), []
    for r in R:
        if repr(r) not in seen:
            seen.add(repr(r))
            R2.append(r)
    return {**g, 'R': R2}
