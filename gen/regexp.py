"""Seeded regular-expression trees."""


def tree(rng, size, syms, leaf_weights=(15, 15, 70)):
    """Random tree with `size` operator nodes."""
    if size <= 0:
        r = rng.randrange(sum(leaf_weights))
        if r < leaf_weights[0]:
            return ['0']
        if r < leaf_weights[0] + leaf_weights[1]:
            return ['1']
        return ['sym', rng.choice(syms)] if syms else ['1']
    op = rng.choice(['star', 'sum', 'cat', 'sum', 'cat'])
    if op == 'star':
        return ['star', tree(rng, size - 1, syms, leaf_weights)]
    k = rng.randint(0, size - 1)
    return [op, tree(rng, k, syms, leaf_weights), tree(rng, size - 1 - k, syms, leaf_weights)]


CORNERS = [
    ['0'], ['1'], ['sym', 'a'], ['star', ['0']], ['star', ['1']], ['star', ['star', ['sym', 'a']]],
    ['cat', ['0'], ['sym', 'a']], ['cat', ['1'], ['1']], ['sum', ['0'], ['0']], ['star', ['sum', ['1'], ['sym', 'a']]],
    ['cat', ['star', ['sym', 'a']], ['star', ['sym', 'a']]], ['star', ['cat', ['star', ['sym', 'a']], ['star', ['sym', 'b']]]],
    ['sum', ['cat', ['sym', 'a'], ['0']], ['1']], ['star', ['cat', ['1'], ['0']]],
]


def rename_tree(t, m):
    if t[0] == 'sym':
        return ['sym', m[t[1]]]
    if t[0] in ('0', '1'):
        return [t[0]]
    return [t[0]] + [rename_tree(x, m) for x in t[1:]]
