"""Seeded deterministic Turing machines (abstract: states s0.., input a,b, tape a,b,x + blank)."""


def abstract_tm(rng, nmax=4):
    n = rng.randint(1, nmax)
    Q = ['s%d' % i for i in range(n)] + ['ACC', 'REJ']
    Sigma = list('ab'[:rng.randint(1, 2)])
    Gamma = Sigma + (['x'] if rng.random() < 0.6 else []) + ['_']
    dens = rng.choice([0.4, 0.7, 0.9, 1.0])
    delta = []
    for p in Q[:n]:
        for a in Gamma:
            if rng.random() < dens:
                q = rng.choice(Q if rng.random() < 0.85 else Q[:n])
                delta.append([p, a, q, rng.choice(Gamma), rng.choice('LR')])
    return {'kind': 'tm', 'Q': Q, 'Sigma': Sigma, 'Gamma': Gamma, 'delta': delta, 'q0': Q[0], 'acc': 'ACC', 'rej': 'REJ', 'blank': '_'}


def slow_tm(rng):
    """A machine that idles for K steps (alternating right / left moves near the left end) before it accepts or
    rejects on the first input symbol: verdicts that are decided late, but within the default budget of 1000 steps."""
    K = rng.choice([120, 260, 400, 520, 760, 990, 1005])
    Sigma = list('ab'[:rng.randint(1, 2)])
    Gamma = Sigma + ['_']
    Q = ['c%d' % i for i in range(K)] + ['d', 'ACC', 'REJ']
    delta = []
    for i in range(K):
        nxt = Q[i + 1] if i + 1 < K else 'd'
        for g in Gamma:
            delta.append([Q[i], g, nxt, g, 'R' if i % 2 == 0 else 'L'])
    # after an even number of idle steps the head is back on the first cell
    acc_on = rng.choice(Sigma)
    for g in Gamma:
        delta.append(['d', g, 'ACC' if g == acc_on else 'REJ', g, 'R'])
    if K % 2:
        delta = [t for t in delta]      # odd K: the head is on the second cell; still a legal machine
    return {'kind': 'tm', 'Q': Q, 'Sigma': Sigma, 'Gamma': Gamma, 'delta': delta, 'q0': Q[0], 'acc': 'ACC', 'rej': 'REJ', 'blank': '_'}


def rename(spec, rng):
    from gen import names
    newQ = names.fresh_state_names(rng, len(spec['Q']), special_p=0.05)
    qm = dict(zip(spec['Q'], newQ))
    blank = rng.choice(['_', '□', '#'])
    pool = [c for c in names.LOWER + '0123456789' if c != blank]
    syms = [g for g in spec['Gamma'] if g != spec['blank']]
    sm = dict(zip(syms, rng.sample(pool, len(syms))))
    sm[spec['blank']] = blank
    out = dict(spec)
    out['Q'] = names.shuffled(rng, [qm[q] for q in spec['Q']])
    out['Sigma'] = names.shuffled(rng, [sm[a] for a in spec['Sigma']])
    out['Gamma'] = names.shuffled(rng, [sm[a] for a in spec['Gamma']])
    out['delta'] = names.shuffled(rng, [[qm[p], sm[a], qm[q], sm[b], d] for p, a, q, b, d in spec['delta']])
    out['q0'], out['acc'], out['rej'], out['blank'] = qm[spec['q0']], qm[spec['acc']], qm[spec['rej']], blank
    rank = {'Q': {qm[q]: i for i, q in enumerate(spec['Q'])}, 'Sigma': {sm[a]: i for i, a in enumerate(spec['Gamma'])}}
    return out, rank
