"""Seeded deterministic Turing machines (abstract: states s0.., input a,b, tape a,b,x + blank)."""


def abstract_tm(rng, nmax=4):
    n = rng.randint(1, nmax)
    Q = ['s%d' % i for i in range(n)] + ['ACC', 'REJ']
    Sigma = list('ab'[:rng.randint(1, 2)])
    Gamma = Sigma + (['x'] if rng.random() < 0.6 else []) + ['_']
    dens = rng.choice([0.4, 0.7, 0.9, 1.0])
    delta = []
    for p in Q[:n]:
        for a in Gamma:
            if rng.random() < dens:
                q = rng.choice(Q if rng.random() < 0.85 else Q[:n])
                delta.append([p, a, q, rng.choice(Gamma), rng.choice('LR')])
    return {'kind': 'tm', 'Q': Q, 'Sigma': Sigma, 'Gamma': Gamma, 'delta': delta, 'q0': Q[0], 'acc': 'ACC', 'rej': 'REJ', 'blank': '_'}


def slow_tm(rng):
    """A machine that idles for K steps (alternating right / left moves near the left end) before it accepts or
    rejects on the first input symbol: verdicts that are decided late, but within the default budget of 1000 steps."""
    K = rng.choice([120, 260, 400, 520, 760, 990, 1005])
    Sigma = list('ab'[:rng.randint(1, 2)])
    Gamma = Sigma + ['_']
    Q = ['c%d' % i for i in range(K)] + ['d', 'ACC', 'REJ']
    delta = []
    for i in range(K):
        nxt = Q[i + 1] if i + 1 < K else 'd'
        for g in Gamma:
            delta.append([Q[i], g, nxt, g, 'R' if i % 2 == 0 else 'L'])
    # after an even number of idle steps the head is back on the first cell
    acc_on = rng.choice(Sigma)
    for g in Gamma:
        delta.append(['d', g, 'ACC' if g == acc_on else 'REJ', g, 'R'])
    if K % 2:
        delta = [t for t in delta]      # odd K: the head is on the second cell; still a legal machine
    return {'kind': 'tm', 'Q': Q, 'Sigma': Sigma, 'Gamma': Gamma, 'delta': delta, 'q0': Q[0], 'acc': 'ACC', 'rej': 'REJ', 'blank': '_'}


def rename(spec, rng):
    from gen import names
    newQ = names.fresh_state_names(rng, len(spec['Q']), special_p=0.05)
    qm = dict(zip(spec['Q'], newQ))
    blank = rng.choice(['_', '□', '#'])
    pool = [c for c in names.LOWER + '0123456789' if c != blank]
    syms = [g for g in spec['Gamma'] if g != spec['blank']]
    sm = dict(zip(syms, rng.sample(pool, len(syms))))
    sm[spec['blank']] = blank
    out = dict(spec)
    out['Q'] = names.shuffled(rng, [qm[q] for q in spec['Q']])
    out['Sigma'] = names.shuffled(rng, [sm[a] for a in spec['Sigma']])
    out['Gamma'] = names.shuffled(rng, [sm[a] for a in spec['Gamma']])
    out['delta'] = names.shuffled(rng, [[qm[p], sm[a], qm[q], sm[b], d] for p, a, q, b, d in spec['delta']])
    out['q0'], out['acc'], out['rej'], out['blank'] = qm[spec['q0']], qm[spec['acc']], qm[spec['rej']], blank
    rank = {'Q': {qm[q]: i for i, q in enumerate(spec['Q'])}, 'Sigma': {sm[a]: i for i, a in enumerate(spec['Gamma'])}}
    return out, rank


def scanner_tm(rng):
    """A read-only machine that only moves right (a finite automaton on a tape) and keeps working on the blank cells
    after its input: 0-4 further steps on blanks before it accepts; some states have no move for some symbol at all."""
    n = rng.randint(1, 3)
    k = rng.randint(0, 4)
    Sigma = list('ab'[:rng.randint(1, 2)])
    Gamma = Sigma + ['_']
    S = ['s%d' % i for i in range(n)]
    E = ['e%d' % i for i in range(k)]
    Q = S + E + ['ACC', 'REJ']
    delta = []
    for p in S:
        for a in Sigma:
            if rng.random() < 0.85:
                delta.append([p, a, rng.choice(S), a, 'R'])
        if rng.random() < 0.6:
            delta.append([p, '_', E[0] if E else 'ACC', '_', 'R'])
        elif rng.random() < 0.3:
            delta.append([p, '_', p, '_', 'R'])         # works on the blanks for ever
    for i, e in enumerate(E):
        delta.append([e, '_', E[i + 1] if i + 1 < k else 'ACC', '_', 'R'])
    return {'kind': 'tm', 'Q': Q, 'Sigma': Sigma, 'Gamma': Gamma, 'delta': delta, 'q0': S[0], 'acc': 'ACC', 'rej': 'REJ', 'blank': '_'}


def slow_or_loop_tm(rng, budget=1000):
    """Words of one length that behave very differently: after the first symbol the machine either idles for K steps
    and then accepts (K a large fraction of the step budget), or runs to the right for ever, or rejects at once."""
    frac = rng.choice([0.3, 0.52, 0.6, 0.8, 0.95, 0.99])
    K = max(1, int(budget * frac) - 2)
    Sigma = ['a', 'b']
    Gamma = Sigma + ['_']
    Q = ['i', 'run'] + ['c%d' % j for j in range(K)] + ['ACC', 'REJ']
    roles = rng.choice([('slow', 'loop'), ('loop', 'slow'), ('slow', 'reject'), ('slow', 'slow')])
    delta = []
    for sym, role in zip(Sigma, roles):
        if role == 'slow':
            delta.append(['i', sym, 'c0', sym, 'R'])
        elif role == 'loop':
            delta.append(['i', sym, 'run', sym, 'R'])
    for g in Gamma:
        delta.append(['run', g, 'run', g, 'R'])
        for j in range(K):
            delta.append(['c%d' % j, g, 'c%d' % (j + 1) if j + 1 < K else 'ACC', g, 'R' if j % 2 == 0 else 'L'])
    return {'kind': 'tm', 'Q': Q, 'Sigma': Sigma, 'Gamma': Gamma, 'delta': delta, 'q0': 'i', 'acc': 'ACC', 'rej': 'REJ', 'blank': '_'}
