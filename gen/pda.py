"""Seeded pushdown automata (abstract: states s0.., input a,b, stack x,y, epsilon 'ε')."""


def abstract_pda(rng, nmax=4, tmax=8):
    n = rng.randint(1, nmax)
    Q = ['s%d' % i for i in range(n)]
    Sigma = list('ab'[:rng.randint(1, 2)])
    Gamma = list('xy'[:rng.randint(1, 2)])
    e = 'ε'
    p_eps_in = rng.choice([0.2, 0.4, 0.6])
    moves = {}
    for _ in range(rng.randint(1, tmax)):
        p = rng.choice(Q)
        a = e if rng.random() < p_eps_in else rng.choice(Sigma)
        shape = rng.choice(['push', 'pop', 'replace', 'noop', 'push', 'pop'])
        u = e if shape in ('push', 'noop') else rng.choice(Gamma)
        v = e if shape in ('pop', 'noop') else rng.choice(Gamma)
        q = rng.choice(Q)
        moves.setdefault((p, a, u), [])
        if [q, v] not in moves[p, a, u]:
            moves[p, a, u].append([q, v])
    delta = [[p, a, u, T] for (p, a, u), T in moves.items()]
    ratio = rng.choice([0.0, 0.3, 0.5, 1.0])
    F = [q for q in Q if rng.random() < ratio]
    if not F and rng.random() < 0.7:
        F = [rng.choice(Q)]
    return {'kind': 'pda', 'Q': Q, 'Sigma': Sigma, 'Gamma': Gamma, 'delta': delta, 'q0': Q[0], 'F': F, 'eps': e}


CORNERS = [
    # a^n b^n
    {'kind': 'pda', 'Q': ['s0', 's1', 's2'], 'Sigma': ['a', 'b'], 'Gamma': ['x'],
     'delta': [['s0', 'a', 'ε', [['s0', 'x']]], ['s0', 'ε', 'ε', [['s1', 'ε']]], ['s1', 'b', 'x', [['s1', 'ε']]], ['s1', 'ε', 'ε', [['s2', 'ε']]]],
     'q0': 's0', 'F': ['s2'], 'eps': 'ε'},
    # stack-growing epsilon cycle
    {'kind': 'pda', 'Q': ['s0', 's1'], 'Sigma': ['a'], 'Gamma': ['x'],
     'delta': [['s0', 'ε', 'ε', [['s0', 'x']]], ['s0', 'a', 'x', [['s1', 'ε']]]], 'q0': 's0', 'F': ['s1'], 'eps': 'ε'},
    # stack-neutral epsilon cycle
    {'kind': 'pda', 'Q': ['s0', 's1', 's2'], 'Sigma': ['a'], 'Gamma': ['x'],
     'delta': [['s0', 'ε', 'ε', [['s1', 'ε']]], ['s1', 'ε', 'ε', [['s0', 'ε'], ['s2', 'ε']]], ['s2', 'a', 'ε', [['s2', 'ε']]]],
     'q0': 's0', 'F': ['s2'], 'eps': 'ε'},
    # replace transitions
    {'kind': 'pda', 'Q': ['s0', 's1'], 'Sigma': ['a', 'b'], 'Gamma': ['x', 'y'],
     'delta': [['s0', 'a', 'ε', [['s0', 'x']]], ['s0', 'b', 'x', [['s0', 'y']]], ['s0', 'ε', 'y', [['s1', 'ε']]]], 'q0': 's0', 'F': ['s1'], 'eps': 'ε'},
    # needs to push a lot before accepting: a (x^k) then pop k on b
    {'kind': 'pda', 'Q': ['s0', 's1', 's2'], 'Sigma': ['a', 'b'], 'Gamma': ['x'],
     'delta': [['s0', 'ε', 'ε', [['s0', 'x'], ['s1', 'ε']]], ['s1', 'b', 'x', [['s1', 'ε']]], ['s1', 'a', 'ε', [['s2', 'ε']]]],
     'q0': 's0', 'F': ['s2'], 'eps': 'ε'},
]


def needle_pda(rng, depth=None):
    """A PDA whose epsilon-closure is an infinite binary tree of stacks and whose only accepting computations pop one
    particular pattern: whether it is found below the iteration limit depends on the order in which the closure is explored."""
    # every pop of the chain is queued behind a frontier that keeps doubling, so with the default limit of 1000 the
    # cut-off of a breadth-first search lies at depth 5 (measured: depth 4 always found, depth 6 never)
    depth = depth or rng.choice([3, 4, 4, 5, 5, 5, 5, 5, 6, 6, 7, 9])
    pat = [rng.choice('xy') for _ in range(depth)]
    e = 'ε'
    Q = ['s0'] + ['s%d' % i for i in range(1, depth + 1)]
    delta = [['s0', e, e, [['s0', 'x'], ['s0', 'y']]]]
    for i, c in enumerate(pat):
        delta.append([Q[i], e, c, [[Q[i + 1], e]]])
    if rng.random() < 0.5:
        delta.append([Q[-1], 'a', e, [[Q[-1], e]]])
    return {'kind': 'pda', 'Q': Q, 'Sigma': ['a'], 'Gamma': ['x', 'y'], 'delta': delta, 'q0': 's0', 'F': [Q[-1]], 'eps': e}


def big_closure_pda(rng, depth=None, needle=None):
    """A PDA whose epsilon-closure is FINITE but large: a full binary tree of stacks of bounded depth (2^(d+1)-1
    configurations).  Two flavours: (a) accept by reading `a` on top of one symbol at the deepest level (many accepting
    computations, discovered from half-way through a breadth-first exploration); (b) *needle*: accept only by popping one
    particular stack pattern, by default the one a breadth-first search in sorted order discovers LAST (y^d).  Used with
    closure limits just below / above the closure size, including limits above the default 1000 (the limit is an
    ambient setting that may be raised after import)."""
    d = depth or rng.choice([8, 9, 9, 10, 10])
    if needle is None:
        needle = rng.random() < 0.6
    e = 'ε'
    Q = ['s%d' % i for i in range(d + 1)] + ['acc']
    delta = []
    for i in range(d):
        delta.append([Q[i], e, e, [[Q[i + 1], 'x'], [Q[i + 1], 'y']]])
    if not needle:
        pat = rng.choice('xy')
        delta.append([Q[d], 'a', pat, [['acc', e]]])
        if rng.random() < 0.5:
            delta.append(['acc', e, rng.choice('xy'), [['acc', e]]])
        return {'kind': 'pda', 'Q': Q, 'Sigma': ['a'], 'Gamma': ['x', 'y'], 'delta': delta, 'q0': 's0', 'F': ['acc'], 'eps': e}
    pat = ['y'] * d if rng.random() < 0.7 else [rng.choice('xy') for _ in range(d)]
    P = ['p%d' % i for i in range(1, d)]
    chain = [Q[d]] + P + ['acc']
    for i, c in enumerate(pat):          # pop the pattern, top first
        delta.append([chain[i], e, c, [[chain[i + 1], e]]])
    delta.append(['acc', 'a', e, [['acc', e]]])
    return {'kind': 'pda', 'Q': Q + P, 'Sigma': ['a'], 'Gamma': ['x', 'y'], 'delta': delta, 'q0': 's0', 'F': ['acc'], 'eps': e}


def ambiguous_stack_pda(rng):
    """Legal but unusual: a stack alphabet that is not uniquely decodable (X and XX, or X, Y and XY).  Two different
    stacks with the same concatenation arise in the same state after the same input; only one of them can continue
    to the accepting state.  Anything that identifies a configuration with its printed form confuses them."""
    e = 'ε'
    if rng.random() < 0.5:
        one, two, pair = 'X', 'X', 'XX'
        gamma = ['X', 'XX']
    else:
        one, two, pair = 'X', 'Y', 'XY'
        gamma = ['X', 'Y', 'XY']
    a, b = 'a', 'b'
    # s --a, push one--> m ;  m --eps, push two--> p  (stack [one, two]) ;  m --eps, replace one by pair--> p  (stack [pair])
    delta = [['s', a, e, [['m', one]]], ['m', e, e, [['p', two]]], ['m', e, one, [['p', pair]]]]
    if rng.random() < 0.5:
        delta.append(['p', b, pair, [['q', e]]])                   # only [pair] continues
    else:
        delta.append(['p', b, two, [['r', e]]])                    # only [one, two] continues: pop two, then one
        delta.append(['r', e, one, [['q', e]]])
    if rng.random() < 0.5:
        delta.append(['q', a, e, [['q', e]]])
    Q = ['s', 'm', 'p', 'r', 'q']
    return {'kind': 'pda', 'Q': Q, 'Sigma': [a, b], 'Gamma': gamma, 'delta': delta, 'q0': 's', 'F': ['q'], 'eps': e}


def chain_pda(rng):
    """Reading a letter leads to several configurations at once (dead siblings included); from one of them a long chain
    of epsilon moves - through states, or through a counter on the stack - leads to the accepting configuration.  The
    whole closure is finite, so a limit of exactly its size must still find the end of the chain, however the work is
    divided among the start configurations."""
    e = 'ε'
    L = rng.randint(3, 14)
    sib = rng.randint(1, 3)
    Q = ['s0'] + ['d%d' % i for i in range(sib)] + ['c%d' % i for i in range(L + 1)] + ['f']
    first = [['d%d' % i, e] for i in range(sib)] + [['c0', e]]
    rng.shuffle(first)
    delta = [['s0', 'a', e, first]]
    style = rng.choice(['states', 'push', 'push-pop'])
    for i in range(L):
        if style == 'states':
            delta.append(['c%d' % i, e, e, [['c%d' % (i + 1), e]]])
        elif style == 'push':
            delta.append(['c%d' % i, e, e, [['c%d' % (i + 1), 'x']]])
        else:
            delta.append(['c%d' % i, e, e, [['c%d' % (i + 1), 'x']]] if i < (L + 1) // 2 else ['c%d' % i, e, 'x', [['c%d' % (i + 1), e]]])
    if rng.random() < 0.5:
        delta.append(['c%d' % L, 'b', e, [['f', e]]])
        F = ['f']
    else:
        F = ['c%d' % L]
    for i in range(sib):
        if rng.random() < 0.5:
            delta.append(['d%d' % i, e, e, [['d%d' % i, e]]])       # a sibling with a silent self-loop
    return {'kind': 'pda', 'Q': Q, 'Sigma': ['a', 'b'], 'Gamma': ['x'], 'delta': delta, 'q0': 's0', 'F': F, 'eps': e}


def dense_epsilon_pda(rng):
    """A closure that is small in configurations but dense in epsilon moves: k states pairwise connected by silent moves
    (k*k moves, all leading to configurations already known) and behind them a short chain to the accepting state.  The
    closure has k + 2 or k + 3 configurations; a limit of exactly that size must still reach the end."""
    e = 'ε'
    k = rng.randint(3, 7)
    K = ['k%d' % i for i in range(k)]
    tail = ['t%d' % i for i in range(rng.randint(2, 3))]
    Q = ['s0'] + K + tail
    delta = [['s0', 'a', e, [[K[0], e]]]] if rng.random() < 0.5 else [['s0', e, e, [[K[0], e]]]]
    for p in K:
        delta.append([p, e, e, [[q, e] for q in K]])
    last = rng.choice(K)
    for i, t in enumerate(tail):
        src = last if i == 0 else tail[i - 1]
        # the move into the tail is one more target of an existing key, or a key of its own on a pushed symbol
        for d in delta:
            if d[0] == src and d[1] == e and d[2] == e:
                d[3].append([t, e])
                break
        else:
            delta.append([src, e, e, [[t, e]]])
    return {'kind': 'pda', 'Q': Q, 'Sigma': ['a'], 'Gamma': ['x'], 'delta': delta, 'q0': 's0', 'F': [tail[-1]], 'eps': e}
