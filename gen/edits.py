"""Object-lifetime histories: seeded *in-place edits* of live library objects (what a user does between two
calls in a notebook: flip an accepting state, redirect a transition, add a rule) and *twins* (a second object that
differs from the first in exactly one component that a sloppy cache key or identity test might ignore: start
state, accepting set, start variable).  Edits are plain data; `apply(obj, edit)` mutates the real object, the
oracles always re-snapshot afterwards, so they need no model of the edit."""
import copy

from gambatools.cfg import Rule, Alternative, Variable, Terminal


def propose(rng, spec):
    k = spec['kind']
    if k == 'dfa':
        r = rng.random()
        if r < 0.4 and spec['delta']:
            q, a, t = rng.choice(spec['delta'])
            return {'k': 'retarget', 'q': q, 'a': a, 't': rng.choice(spec['Q'])}
        if r < 0.8 or not spec['Sigma']:
            return {'k': 'toggleF', 'q': rng.choice(spec['Q'])}
        new = 'z%d' % len(spec['Q'])
        while new in spec['Q']:
            new += '_'
        return {'k': 'add_state', 'q': new, 'F': rng.random() < 0.5,
                'out': [[a, rng.choice(spec['Q'] + [new])] for a in spec['Sigma']],
                'redirect': (rng.choice(spec['delta'])[:2] if spec['delta'] and rng.random() < 0.7 else None)}
    if k == 'nfa':
        r = rng.random()
        if r < 0.4:
            return {'k': 'toggleF', 'q': rng.choice(spec['Q'])}
        if r < 0.8 or not spec['delta']:
            a = rng.choice(list(spec['Sigma']) + [spec['eps']])
            return {'k': 'add_edge', 'q': rng.choice(spec['Q']), 'a': a, 't': rng.choice(spec['Q'])}
        q, a, T = rng.choice(spec['delta'])
        return {'k': 'del_edge', 'q': q, 'a': a, 't': rng.choice(T)}
    if k == 'pda':
        r = rng.random()
        if r < 0.3:
            return {'k': 'toggleF', 'q': rng.choice(spec['Q'])}
        if r < 0.55:
            e = spec['eps']
            return {'k': 'add_move', 'p': rng.choice(spec['Q']), 'a': rng.choice(list(spec['Sigma']) + [e]),
                    'u': rng.choice(list(spec['Gamma']) + [e]), 'q': rng.choice(spec['Q']), 'v': rng.choice(list(spec['Gamma']) + [e])}
        if r < 0.75 and spec['delta']:
            p, a, u, T = rng.choice(spec['delta'])
            q, v = rng.choice(T)
            return {'k': 'del_move', 'p': p, 'a': a, 'u': u, 'q': q, 'v': v}
        return {'k': 'lib', 'fn': rng.choice(['pda_to_one_accepting_state_in_place', 'pda_to_accept_on_empty_stack_in_place', 'pda_to_push_pop_in_place'])}
    if k == 'cfg' and spec.get('cnf_only'):
        nonstart = [v for v in spec['V'] if v != spec['S']]
        r = rng.random()
        if r < 0.4 and nonstart:
            return {'k': 'add_rule', 'A': rng.choice(spec['V']), 'rhs': [[rng.choice(nonstart), 'V'], [rng.choice(nonstart), 'V']]}
        if r < 0.7 and spec['Sigma']:
            return {'k': 'add_rule', 'A': rng.choice(spec['V']), 'rhs': [[rng.choice(spec['Sigma']), 'T']]}
        return {'k': 'del_rule', 'i': rng.randrange(len(spec['R']))} if spec['R'] else None
    if k == 'cfg':
        r = rng.random()
        if r < 0.35 and len(spec['V']) > 1:
            return {'k': 'set_start', 'S': rng.choice([v for v in spec['V'] if v != spec['S']])}
        if r < 0.75 or not spec['R']:
            syms = [[v, 'V'] for v in spec['V']] + [[t, 'T'] for t in spec['Sigma']]
            return {'k': 'add_rule', 'A': rng.choice(spec['V']), 'rhs': [rng.choice(syms) for _ in range(rng.randint(0, 3))] if syms else []}
        if r < 0.88:
            return {'k': 'del_rule', 'i': rng.randrange(len(spec['R']))}
        return {'k': 'lib', 'fn': rng.choice(['cfg_to_chomsky_in_place', 'cfg_remove_epsilon_rules_in_place', 'cfg_eliminate_unit_rules_in_place',
                                              'cfg_add_new_start_variable_in_place', 'cfg_remove_useless_rules_in_place'])}
    return None


def apply(obj, e):
    k = e['k']
    if k == 'toggleF':
        if e['q'] in obj.F:
            obj.F.discard(e['q'])
        elif e['q'] in obj.Q:
            obj.F.add(e['q'])
    elif k == 'retarget':
        if (e['q'], e['a']) in obj.delta and e['t'] in obj.Q:
            obj.delta[e['q'], e['a']] = e['t']
    elif k == 'add_state':
        if e['q'] in obj.Q:
            return
        obj.Q.add(e['q'])
        if e['F']:
            obj.F.add(e['q'])
        for a, t in e['out']:
            if a in obj.Sigma and t in obj.Q:
                obj.delta[e['q'], a] = t
        for a in obj.Sigma:
            if (e['q'], a) not in obj.delta:
                obj.delta[e['q'], a] = e['q']
        if e.get('redirect') and tuple(e['redirect']) in obj.delta:
            obj.delta[tuple(e['redirect'])] = e['q']
    elif k == 'add_edge':
        if e['q'] in obj.Q and e['t'] in obj.Q and (e['a'] in obj.Sigma or e['a'] == obj.epsilon):
            key = (e['q'], e['a'])
            if key in obj.delta:
                obj.delta[key] = set(obj.delta[key]) | {e['t']}     # a fresh set: never touches a shared one
            else:
                obj.delta[key] = {e['t']}
    elif k == 'del_edge':
        key = (e['q'], e['a'])
        if key in obj.delta:
            obj.delta[key] = set(obj.delta[key]) - {e['t']}
    elif k == 'add_move':
        ok = e['p'] in obj.Q and e['q'] in obj.Q and (e['a'] in obj.Sigma or e['a'] == obj.epsilon) \
            and (e['u'] in obj.Gamma or e['u'] == obj.epsilon) and (e['v'] in obj.Gamma or e['v'] == obj.epsilon)
        if ok:
            key = (e['p'], e['a'], e['u'])
            obj.delta[key] = set(obj.delta.get(key, ())) | {(e['q'], e['v'])}
    elif k == 'del_move':
        key = (e['p'], e['a'], e['u'])
        if key in obj.delta:
            obj.delta[key] = set(obj.delta[key]) - {(e['q'], e['v'])}
    elif k == 'lib':
        import gambatools.pda_algorithms as pa
        import gambatools.cfg_algorithms as ca
        getattr(pa if e['fn'].startswith('pda_') else ca, e['fn'])(obj)
    elif k == 'set_start':
        if e['S'] in obj.V:
            obj.S = Variable(e['S'])
    elif k == 'add_rule':
        if e['A'] in obj.V and all((s[0] in obj.V) if s[1] == 'V' else (s[0] in obj.Sigma) for s in e['rhs']):
            obj.R.append(Rule(Variable(e['A']), Alternative([Variable(s[0]) if s[1] == 'V' else Terminal(s[0]) for s in e['rhs']])))
    elif k == 'del_rule':
        if 0 <= e['i'] < len(obj.R) and len(obj.R) > 1:
            del obj.R[e['i']]
    else:
        raise ValueError(e)


def twin(rng, spec):
    """A copy that differs in one component only (same states, same transitions / rules)."""
    t = copy.deepcopy(spec)
    k = spec['kind']
    if k in ('dfa', 'nfa', 'pda'):
        if rng.random() < 0.5 and len(spec['Q']) > 1:
            t['q0'] = rng.choice([q for q in spec['Q'] if q != spec['q0']])
        else:
            q = rng.choice(spec['Q'])
            t['F'] = [x for x in spec['F'] if x != q] if q in spec['F'] else spec['F'] + [q]
        return t
    if k == 'regexp':
        # same printed form, other meaning: the symbol '0' / '1' versus the constant 0 / 1
        def swap(node):
            if node[0] == 'sym' and node[1] in ('0', '1'):
                return [node[1]]
            if node[0] in ('0', '1'):
                return ['sym', node[0]]
            if node[0] == 'sym':
                return list(node)
            return [node[0]] + [swap(x) for x in node[1:]]
        t['tree'] = swap(spec['tree'])
        return t if t['tree'] != spec['tree'] else None
    if k == 'cfg':
        others = [v for v in spec['V'] if v != spec['S']]
        if not others:
            return None
        t['S'] = rng.choice(others)
        return t
    return None
