"""Seeded generators for DFA / NFA specs (abstract names s0.., symbols a,b,c) and their renaming."""
from gen import names


def abstract_dfa(rng, nmin=1, nmax=7, kmin=0, kmax=3, unreachable_max=3, acc_ratios=(0.0, 0.1, 0.5, 0.5, 0.9, 1.0)):
    n = rng.randint(nmin, nmax)
    k = rng.randint(kmin, kmax)
    extra = rng.randint(0, unreachable_max) if rng.random() < 0.4 else 0
    core = n
    n_total = n + extra
    Q = ['s%d' % i for i in range(n_total)]
    Sigma = list('abc'[:k])
    delta = []
    # core states only point to core states -> the extra ones are unreachable (some core may be too)
    for i in range(n_total):
        for a in Sigma:
            tgt = rng.randrange(core) if i < core else rng.randrange(n_total)
            delta.append([Q[i], a, Q[tgt]])
    ratio = rng.choice(acc_ratios)
    F = [q for q in Q if rng.random() < ratio]
    return {'kind': 'dfa', 'Q': Q, 'Sigma': Sigma, 'delta': delta, 'q0': Q[0], 'F': F}


def structured_dfa(rng):
    """DFAs with many mergeable states: build a small DFA and split states into equivalent copies."""
    base = abstract_dfa(rng, 1, 4, 1, 2, 0)
    copies = {q: [q] for q in base['Q']}
    Q = list(base['Q'])
    for _ in range(rng.randint(1, 3)):
        q = rng.choice(base['Q'])
        nq = 's%d' % len(Q)
        Q.append(nq)
        copies[q].append(nq)
    origin = {c: q for q, cs in copies.items() for c in cs}
    bd = {(q, a): t for q, a, t in base['delta']}
    delta = []
    for q in Q:
        for a in base['Sigma']:
            t = bd[origin[q], a]
            delta.append([q, a, rng.choice(copies[t])])
    F = [q for q in Q if origin[q] in set(base['F'])]
    return {'kind': 'dfa', 'Q': Q, 'Sigma': base['Sigma'], 'delta': delta, 'q0': rng.choice(copies[base['q0']]), 'F': F}


CORNER_DFAS = [
    {'kind': 'dfa', 'Q': ['s0'], 'Sigma': [], 'delta': [], 'q0': 's0', 'F': []},
    {'kind': 'dfa', 'Q': ['s0'], 'Sigma': [], 'delta': [], 'q0': 's0', 'F': ['s0']},
    {'kind': 'dfa', 'Q': ['s0'], 'Sigma': ['a'], 'delta': [['s0', 'a', 's0']], 'q0': 's0', 'F': ['s0']},
    {'kind': 'dfa', 'Q': ['s0'], 'Sigma': ['a', 'b'], 'delta': [['s0', 'a', 's0'], ['s0', 'b', 's0']], 'q0': 's0', 'F': []},
    {'kind': 'dfa', 'Q': ['s0', 's1'], 'Sigma': ['a'], 'delta': [['s0', 'a', 's1'], ['s1', 'a', 's0']], 'q0': 's0', 'F': ['s0', 's1']},
    {'kind': 'dfa', 'Q': ['s0', 's1'], 'Sigma': ['a'], 'delta': [['s0', 'a', 's0'], ['s1', 'a', 's0']], 'q0': 's0', 'F': ['s1']},
    {'kind': 'dfa', 'Q': ['s0', 's1', 's2'], 'Sigma': ['a', 'b'],
     'delta': [['s0', 'a', 's1'], ['s0', 'b', 's2'], ['s1', 'a', 's2'], ['s1', 'b', 's2'], ['s2', 'a', 's2'], ['s2', 'b', 's2']],
     'q0': 's0', 'F': ['s0', 's1']},
    {'kind': 'dfa', 'Q': ['s0', 's1', 's2', 's3'], 'Sigma': ['a'],
     'delta': [['s0', 'a', 's1'], ['s1', 'a', 's0'], ['s2', 'a', 's3'], ['s3', 'a', 's2']], 'q0': 's0', 'F': ['s1', 's3']},
]


def abstract_nfa(rng, nmin=1, nmax=5, kmin=0, kmax=2, eps_p=None, density=None):
    n = rng.randint(nmin, nmax)
    k = rng.randint(kmin, kmax)
    Q = ['s%d' % i for i in range(n)]
    Sigma = list('abc'[:k])
    if eps_p is None:
        eps_p = rng.choice([0.0, 0.15, 0.3, 0.5])
    if density is None:
        density = rng.choice([0.15, 0.3, 0.5])
    delta = []
    for q in Q:
        for a in Sigma:
            T = [t for t in Q if rng.random() < density]
            if T:
                delta.append([q, a, T])
        T = [t for t in Q if rng.random() < eps_p * (0.6 if n > 2 else 1.0)]
        if T:
            delta.append([q, 'ε', T])
    ratio = rng.choice([0.0, 0.2, 0.5, 0.5, 1.0])
    F = [q for q in Q if rng.random() < ratio]
    return {'kind': 'nfa', 'Q': Q, 'Sigma': Sigma, 'delta': delta, 'q0': Q[0], 'F': F, 'eps': 'ε', 'dd': True}


CORNER_NFAS = [
    {'kind': 'nfa', 'Q': ['s0'], 'Sigma': [], 'delta': [], 'q0': 's0', 'F': [], 'eps': 'ε', 'dd': True},
    {'kind': 'nfa', 'Q': ['s0'], 'Sigma': ['a'], 'delta': [['s0', 'ε', ['s0']]], 'q0': 's0', 'F': ['s0'], 'eps': 'ε', 'dd': True},
    # epsilon cycle on the accepting path
    {'kind': 'nfa', 'Q': ['s0', 's1', 's2', 's3'], 'Sigma': ['a'],
     'delta': [['s0', 'ε', ['s1']], ['s1', 'ε', ['s2']], ['s2', 'ε', ['s1', 's3']], ['s3', 'a', ['s3']]],
     'q0': 's0', 'F': ['s3'], 'eps': 'ε', 'dd': True},
    # several epsilon paths to the same state
    {'kind': 'nfa', 'Q': ['s0', 's1', 's2', 's3'], 'Sigma': ['a', 'b'],
     'delta': [['s0', 'ε', ['s1', 's2']], ['s1', 'ε', ['s3']], ['s2', 'ε', ['s3', 's0']], ['s3', 'a', ['s0']], ['s3', 'b', ['s3']]],
     'q0': 's0', 'F': ['s3'], 'eps': 'ε', 'dd': True},
    {'kind': 'nfa', 'Q': ['s0', 's1', 's2'], 'Sigma': ['a'],
     'delta': [['s0', 'a', ['s1']], ['s1', 'ε', ['s2', 's0']], ['s2', 'ε', ['s1']]],
     'q0': 's0', 'F': ['s2'], 'eps': 'ε', 'dd': True},
]


def rename(spec, rng, eps_choices=('ε', '_', '', 'e'), special_p=0.08, keep_symbols=False, shuffle=True):
    """Injective renaming of states and symbols of a dfa/nfa/pda abstract spec; also shuffles list orders
    (= insertion history).  Returns (concrete spec, rank) where rank maps concrete name -> abstract index."""
    Q = spec['Q']
    newQ = names.fresh_state_names(rng, len(Q), special_p=special_p)
    qm = dict(zip(Q, newQ))
    sig = list(spec['Sigma'])
    gam = list(spec.get('Gamma', []))
    if keep_symbols:
        sm = {a: a for a in sig + gam}
        eps = spec.get('eps')
    else:
        eps = rng.choice(eps_choices) if 'eps' in spec else None
        pool = [c for c in names.LOWER + '0123456789' if c != eps]
        if rng.random() < 0.12:
            pool += [c for c in ('_', 'ε') if c != eps] * 6      # legal input symbols that some text conventions read as "empty"
        syms = rng.sample(pool, len(set(sig) | set(gam)))
        while len(set(syms)) < len(syms):
            syms = rng.sample(pool, len(syms))
        sm = dict(zip(sorted(set(sig) | set(gam)), syms))
        if spec.get('keep_gamma'):
            for g in gam:
                sm[g] = g
        elif spec['kind'] == 'pda' and gam and rng.random() < 0.3:
            # multi-character stack symbols, one a concatenation of others (legal through the constructor)
            base = rng.choice('ABXZ')
            forms = [base, base * 2, base * 3] if rng.random() < 0.5 else [base, 'Q', base + 'Q']
            for g, f in zip(sorted(set(gam)), forms):
                if f != eps:
                    sm[g] = f
    if 'eps' in spec:
        sm[spec['eps']] = eps
    out = {k: v for k, v in spec.items() if k != 'keep_gamma'}
    out['Q'] = [qm[q] for q in Q]
    out['Sigma'] = [sm[a] for a in sig]
    out['q0'] = qm[spec['q0']]
    out['F'] = [qm[q] for q in spec['F']]
    if spec['kind'] == 'dfa':
        out['delta'] = [[qm[q], sm[a], qm[t]] for q, a, t in spec['delta']]
    elif spec['kind'] == 'nfa':
        out['delta'] = [[qm[q], sm[a], [qm[t] for t in T]] for q, a, T in spec['delta']]
        out['eps'] = eps
    elif spec['kind'] == 'pda':
        out['Gamma'] = [sm[a] for a in gam]
        out['delta'] = [[qm[p], sm[a], sm[u], [[qm[q], sm[v]] for q, v in T]] for p, a, u, T in spec['delta']]
        out['eps'] = eps
    if shuffle:
        for key in ('Q', 'Sigma', 'Gamma', 'F', 'delta'):
            if key in out:
                out[key] = names.shuffled(rng, out[key])
        if spec['kind'] in ('nfa',):
            out['delta'] = [[q, a, names.shuffled(rng, T)] for q, a, T in out['delta']]
    rank = {'Q': {qm[q]: i for i, q in enumerate(Q)},
            'Sigma': {sm[a]: i for i, a in enumerate(sorted(set(sig) | set(gam)))}}
    return out, rank


def shrink_dfa(s, drop_symbols=True):
    """Smaller variants of a (complete) DFA spec, keeping names; most aggressive first."""
    import copy
    for q in s['Q']:
        if q == s['q0']:
            continue
        t = copy.deepcopy(s)
        t['Q'] = [x for x in t['Q'] if x != q]
        t['F'] = [x for x in t['F'] if x != q]
        t['delta'] = [[p, a, (r if r != q else p)] for p, a, r in t['delta'] if p != q]
        yield t
    if drop_symbols:
        for a in s['Sigma']:
            t = copy.deepcopy(s)
            t['Sigma'] = [x for x in t['Sigma'] if x != a]
            t['delta'] = [d for d in t['delta'] if d[1] != a]
            yield t
    for q in s['F']:
        t = copy.deepcopy(s)
        t['F'] = [x for x in s['F'] if x != q]
        yield t
    for i, (p, a, r) in enumerate(s['delta']):
        if r != p:
            t = copy.deepcopy(s)
            t['delta'][i] = [p, a, p]
            yield t
    for i, (p, a, r) in enumerate(s['delta']):
        if r != s['q0']:
            t = copy.deepcopy(s)
            t['delta'][i] = [p, a, s['q0']]
            yield t


def shrink_nfa(s):
    import copy
    for q in s['Q']:
        if q == s['q0']:
            continue
        t = copy.deepcopy(s)
        t['Q'] = [x for x in t['Q'] if x != q]
        t['F'] = [x for x in t['F'] if x != q]
        t['delta'] = [[p, a, [r for r in T if r != q]] for p, a, T in t['delta'] if p != q]
        t['delta'] = [d for d in t['delta'] if d[2]]
        yield t
    for i in range(len(s['delta'])):
        t = copy.deepcopy(s)
        del t['delta'][i]
        yield t
    for i, (p, a, T) in enumerate(s['delta']):
        if len(T) > 1:
            for r in T:
                t = copy.deepcopy(s)
                t['delta'][i][2] = [x for x in T if x != r]
                yield t
    for a in s['Sigma']:
        t = copy.deepcopy(s)
        t['Sigma'] = [x for x in t['Sigma'] if x != a]
        t['delta'] = [d for d in t['delta'] if d[1] != a]
        yield t
    for q in s['F']:
        t = copy.deepcopy(s)
        t['F'] = [x for x in s['F'] if x != q]
        yield t


def rename_states(spec, rng, special_p=0.08, shuffle=True):
    """Rename states only (symbols untouched)."""
    out, rank = rename(spec, rng, special_p=special_p, keep_symbols=True, shuffle=shuffle)
    return out, rank


def spec_of_canon(c):
    """A DFA spec (abstract names) of a canonical minimal DFA (sigma, trans, acc)."""
    sigma, trans, acc = c
    Q = ['s%d' % i for i in range(len(trans))]
    delta = [[Q[i], a, Q[row[k]]] for i, row in enumerate(trans) for k, a in enumerate(sigma)]
    return {'kind': 'dfa', 'Q': Q, 'Sigma': list(sigma), 'delta': delta, 'q0': Q[0], 'F': [Q[i] for i, x in enumerate(acc) if x]}


def add_unreachable(spec, rng, k):
    import copy
    t = copy.deepcopy(spec)
    base = len(t['Q'])
    for j in range(k):
        q = 'u%d' % (base + j)
        t['Q'].append(q)
        for a in t['Sigma']:
            t['delta'].append([q, a, rng.choice(t['Q'])])
        if rng.random() < 0.5:
            t['F'].append(q)
    return t


def anchor_probe_dfa(rng, dense=False):
    """A large DFA with many Nerode classes that are separated late: N pairwise distinguishable *anchor* states (a counter
    on symbol c) and M reachable *probe* states that differ from each other only in WHICH anchors their a- and
    b-transitions point to; the probes are the leaves of a 4-ary tree of router states rooted at q0.  Any
    partition-refinement shortcut that confuses class identities (numbering, hashing, ordering) merges two probes."""
    N = rng.randint(12, 24)
    M = rng.randint(30, 90)
    if dense:
        # every (a-target, b-target) combination of the anchors occurs among the probes, so whatever numbers, hashes or
        # positions a refinement gives the anchor classes, every pair of successor-class pairs is present
        N = rng.randint(12, 15)
        M = N * N
    anchors = ['a%d' % i for i in range(N)]
    probes = ['p%d' % k for k in range(M)]
    Sigma = ['a', 'b', 'c', 'd']
    delta = []
    for i, x in enumerate(anchors):
        nxt = anchors[i + 1] if i + 1 < N else 'sink'
        delta += [[x, 'a', 'sink'], [x, 'b', 'sink'], [x, 'c', nxt], [x, 'd', 'sink']]
    seen = set()
    for p in probes:
        while True:
            ij = (rng.choice(anchors), rng.choice(anchors))
            if ij not in seen or len(seen) >= N * N:
                break
        seen.add(ij)
        delta += [[p, 'a', ij[0]], [p, 'b', ij[1]], [p, 'c', 'sink'], [p, 'd', 'sink']]
    if rng.random() < 0.5 and not dense:
        # variant: the probes form a chain on symbol d (instead of hanging under a router tree)
        delta = [t for t in delta if not (t[0] in set(probes) and t[1] == 'd')]
        for k, p in enumerate(probes):
            delta.append([p, 'd', probes[k + 1] if k + 1 < M else 'sink'])
        for x in Sigma:
            delta.append(['sink', x, 'sink'])
        return {'kind': 'dfa', 'Q': probes + anchors + ['sink'], 'Sigma': Sigma, 'delta': delta, 'q0': probes[0], 'F': [anchors[-1]]}
    # routers: a 4-ary tree whose leaves are the probes
    level = list(probes)
    routers = []
    while len(level) > 1:
        nxt_level = []
        for k in range(0, len(level), 4):
            r = 'r%d' % len(routers)
            routers.append(r)
            kids = level[k:k + 4]
            for j, x in enumerate(Sigma):
                delta.append([r, x, kids[j] if j < len(kids) else 'sink'])
            nxt_level.append(r)
        level = nxt_level
    for x in Sigma:
        delta.append(['sink', x, 'sink'])
    Q = probes + anchors + routers + ['sink']
    return {'kind': 'dfa', 'Q': Q, 'Sigma': Sigma, 'delta': delta, 'q0': level[0], 'F': [anchors[-1]]}


def long_epsilon_chain_nfa(rng):
    """Boundary size: one epsilon segment of more than a thousand moves before or after the only input symbol."""
    K = rng.choice([1010, 1200, 1500])
    Q = ['c%d' % i for i in range(K)] + ['f']
    before = rng.random() < 0.5
    delta = [[Q[i], 'ε', [Q[i + 1]]] for i in range(K - 1)]
    if before:
        delta.append([Q[K - 1], 'a', ['f']])
        q0 = Q[0]
    else:
        delta.append(['f', 'a', [Q[0]]])
        q0 = 'f'
    F = ['f'] if before else [Q[K - 1]]
    return {'kind': 'nfa', 'Q': Q, 'Sigma': ['a'], 'delta': delta, 'q0': q0, 'F': F, 'eps': 'ε', 'dd': True}
